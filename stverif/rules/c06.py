"""C06 - suggestions are valid, typed configurations; initial points first; no repeats."""
import ast

from ..core.model import AnchorError, FuncInfo
from ..core.cfg import walk_shallow, cfg_of
from ..core.facts import U, atoms_of
from ..engine import argn, fn_name, kwarg, local_defs, returns_of, stmts_in, vars_assigned_from, var_from_call, deref
from ..kinds import cursor as K
from ..kinds.taint import tainted_returns

EXPLANATION = (
    "Decides structural clauses of C06: S1 every suggestion is post-processed - TrialScheduler.suggest wraps every non-None "
    "configuration coming out of _suggest in _postprocess_config (which starts from a copy of the configuration space, so "
    "constants are kept, and updates it with the values cast to the domain types); only suggest (or a wrapper's own _suggest) "
    "calls _suggest, and no scheduler overrides suggest without calling super().suggest; S2 initial points first - in every "
    "searcher the property names, the first configuration source on every path of get_config is the queue of initial "
    "configurations, popped from the front, before any random draw or model call; S3 imputation de-duplicates and keeps the "
    "given order; S4 searchers that promise no repeats record what they return (exclusion list updated after every non-None "
    "result when duplicates are not allowed), random sampling returns only configurations not in the exclusion list, and the "
    "BO candidate picker inserts only non-duplicates, falling back to the un-optimised candidate; S5 pending, failed and "
    "observed configurations are all excluded, failed and pending ones are never filtered out again (monotone union), and a "
    "trial leaves the pending list only into observed or failed (typestate: every drop_pending_evaluation is followed on every "
    "path by a label or a failure mark); S6 grid search advances its index exactly once per candidate considered and "
    "resets it only when duplicates are allowed; S7 PBT's exploration writes only sampled or clipped-and-cast values. "
    "S4 also: inside one batch every pick is excluded before the next one (random picks of get_batch_configs, rounds of the greedy batch selection, one exclusion list handed on). NOT decided: that model-based candidates decode into the domain (C07 numeric clauses).")

FLOOR = {"S1": 4, "S2": 5, "S3": 6, "S4": 5, "S5": 5, "S6": 7, "S7": 2}


def s1(ctx, rep):
    P = ctx.P
    ts = P.cls("TrialScheduler")
    f = ts.methods["suggest"]
    cfg = cfg_of(f)
    # the value returned: every returned TrialSuggestion with a config went through _postprocess_config
    pp = [x for x in walk_shallow(f.node) if isinstance(x, ast.Call) and fn_name(x) == "_postprocess_config"]
    ok = len(pp) == 1
    if ok:
        # guarded by ret_val is not None and ret_val.config is not None; the result replaces ret_val
        nid = [n.id for n in cfg.nodes if any(y is pp[0] for y in cfg.node_walk(n.id))][0]
        at = ctx.facts(f).at(nid)
        rv = U(argn(pp[0], 0)).split(".")[0]
        ok = ("is", rv, "None", False) in at and ("is", f"{rv}.config", "None", False) in at
        # the suggestion variable is rebuilt with the post-processed configuration (directly or through a temporary)
        from ..engine import deref
        sts = [n_.ast for n_ in cfg.nodes if n_.kind == "stmt" and isinstance(n_.ast, ast.Assign) and U(n_.ast.targets[0]) == rv
               and isinstance(n_.ast.value, ast.Call) and kwarg(n_.ast.value, "config") is not None
               and deref(f, kwarg(n_.ast.value, "config")) is pp[0]]
        if ok and len(sts) == 1:
            sid = {n_.id for n_ in cfg.nodes if n_.ast is sts[0]}
            ok = nid in sid or cfg.path([s_ for s_, l in cfg.succ[nid]], cfg.exit, deleted=sid, skip_labels=("exc",)) is None
        else:
            ok = False
        rets = [U(r.value) for r in returns_of(f)]
        ok = ok and rets == [rv]
        # no other guard can skip the post-processing
        from .c01 import _dom_atoms
        extra = [a for a in _dom_atoms(cfg, nid) if a not in {("is", rv, "None", False), ("is", f"{rv}.config", "None", False)}
                 and a[0] != "isinstance"]
        ok = ok and not extra
    rep.put(ok, "S1", "must_follow", "TrialScheduler.suggest: every non-None configuration from _suggest is post-processed", f, pp[0] if pp else None, "",
            "a configuration can leave suggest() without _postprocess_config: constants of the configuration space are missing "
            "or values are not cast to the domain types")
    g = ts.methods["_postprocess_config"]
    ncv = [U(r.value) for r in returns_of(g)]
    ncv = ncv[0] if len(ncv) == 1 else "?"
    nc = [d for d in local_defs(g, ncv) if not isinstance(d, tuple)]
    ok = len(nc) == 1 and U(nc[0]) == "self.config_space.copy()"
    upd = [x for x in walk_shallow(g.node) if isinstance(x, ast.Call) and fn_name(x) == "update" and U(x.func.value) == ncv]
    from ..engine import deref
    ok = ok and len(upd) == 1 and isinstance(deref(g, argn(upd[0], 0)), ast.Call) and fn_name(deref(g, argn(upd[0], 0))) == "cast_config_values"
    rep.put(ok, "S1", "agreement", "TrialScheduler._postprocess_config: copy of the space (constants kept) updated with the cast values", g, None, "",
            "the post-processed configuration does not start from the full configuration space or is not cast to the domain types")
    # who may call _suggest
    bad = []
    n = 0
    for h, call in ctx.all_calls_anywhere(method="_suggest", recv="TrialScheduler", allow_name=True):
        top = h
        while top.parent is not None:
            top = top.parent
        n += 1
        if not (top is f or top.name == "_suggest"):
            bad.append((top, call))
    rep.put(not bad and n >= 1, "S1", "who_may_call", "_suggest is called only by TrialScheduler.suggest or a wrapper's own _suggest", ts, None,
            f"{n} call sites", "bypasses post-processing: " + ", ".join(t.short for t, c in bad))
    over = []
    for c in P.all_subclasses(ts):
        m = c.methods.get("suggest")
        if m is None:
            continue
        sup = any(isinstance(x, ast.Call) and fn_name(x) == "suggest" and (
            (isinstance(x.func.value, ast.Call) and fn_name(x.func.value) == "super") or
            (isinstance(x.func.value, ast.Attribute) and U(x.func.value.value) == "self")) for x in walk_shallow(m.node))
        rets = returns_of(m)
        ok = sup and all(isinstance(r.value, ast.Call) and fn_name(r.value) == "suggest" or isinstance(r.value, ast.Name) for r in rets)
        rep.put(ok, "S1", "sibling", f"{c.name}.suggest returns super().suggest(...) or the wrapped scheduler's suggest(...)", m, None, "",
                f"{c.name} overrides suggest without going through TrialScheduler.suggest")
    cc = P.func("syne_tune.config_space.cast_config_values")
    ok = "cast(" in U(cc.node) or ".cast" in U(cc.node)
    rep.put(ok, "S1", "agreement", "cast_config_values casts through Domain.cast", cc, None, "")


SEARCHERS_S2 = [("RandomSearcher", "_get_config"), ("GridSearcher", "get_config"), ("RegularizedEvolution", "get_config"),
                ("ModelBasedSearcher", "_get_config_not_modelbased")]


def s2(ctx, rep):
    P = ctx.P
    for cname, meth in SEARCHERS_S2:
        f = P.method(cname, meth)
        cfg = cfg_of(f)
        a = ctx.nodes(f, ctx.sel_call(selfcall="_next_initial_config"), "must", 1)
        # sources of a new configuration: random draws, model calls, grid steps
        def is_source(x):
            if not isinstance(x, ast.Call):
                return False
            n = fn_name(x)
            return n in ("_get_random_config", "_sample_random_config", "sample_random_configuration", "_next_candidate_on_grid",
                         "_get_config_modelbased", "_mutate_config", "choice", "random_config", "get_config") and \
                not (n == "get_config" and isinstance(x.func.value, ast.Call))
        b = {n.id for n in cfg.nodes if any(is_source(x) for x in cfg.node_walk(n.id))}
        if not b:
            raise AnchorError(f"{cname}.{meth}: no configuration source other than the initial queue found")
        viol = [x for x in b if cfg.path(cfg.entry, x, deleted=a) is not None]
        # and the other sources are consulted only when the queue gave nothing
        guarded = True
        iv = None
        for n in cfg.nodes:
            if n.id in a and n.kind == "stmt" and isinstance(n.ast, ast.Assign):
                iv = U(n.ast.targets[0])
        if iv is not None:
            for x in b:
                at = ctx.facts(f).at(x)
                if not any((a_[0] == "is" and a_[1] == iv and a_[2] == "None" and a_[3] is True) for a_ in at):
                    guarded = False
        rep.put(bool(a) and not viol and guarded, "S2", "must_precede", f"{cname}.{meth}: initial configurations first (queue consulted before any other source)",
                f, None, f"{len(b)} other source site(s), all after the queue and only when it returned None",
                "a random / model-based / grid configuration can be produced before (or although) user-supplied initial configurations "
                "remain", witness=viol and cfg.describe_path(cfg.path(cfg.entry, viol[0], deleted=a)) or None)
    # model-based: the model is consulted only if the non-model-based step (queue, then random) did not decide
    mb = P.method("ModelBasedSearcher", "get_config")
    cm = cfg_of(mb)
    first = ctx.nodes(mb, ctx.sel_call(selfcall="_get_config_not_modelbased"), "must", 0)
    model = ctx.nodes(mb, ctx.sel_call(selfcall="_get_config_modelbased"), "may", 0)
    ok = bool(first) and bool(model) and all(cm.path(cm.entry, x, deleted=first) is None for x in model) and \
        all(ctx.has_fact(mb, x, lambda a: a == ("truth", var_from_call(mb, "_get_config_not_modelbased", 1), False)) for x in model)
    h = P.method("ModelBasedSearcher", "_get_config_not_modelbased")
    hr = [r.value for r in returns_of(h) if isinstance(r.value, ast.Tuple) and len(r.value.elts) == 2]
    cfgv, prv = (U(hr[0].elts[0]), U(hr[0].elts[1])) if hr else ("?", "?")
    pr = [n for n in cfg_of(h).nodes if n.kind == "stmt" and isinstance(n.ast, ast.Assign) and U(n.ast.targets[0]) == prv
          and isinstance(n.ast.value, ast.Constant) and n.ast.value.value is True]
    ok = ok and len(pr) == 1 and ctx.has_fact(h, pr[0].id, lambda a: a[0] == "is" and a[1] == cfgv and a[3] is False)
    rep.put(ok, "S2", "guarded_by", "ModelBasedSearcher.get_config: the surrogate model is consulted only after the initial queue is empty", mb, None, "",
            "a model-based suggestion can be made although initial configurations remain")
    g = P.method("BaseSearcher", "_next_initial_config")
    pops = [x for x in walk_shallow(g.node) if isinstance(x, ast.Call) and fn_name(x) == "pop" and "_points_to_evaluate" in U(x.func.value)]
    ok = len(pops) == 1 and len(pops[0].args) == 1 and U(argn(pops[0], 0)) == "0"
    rep.put(ok, "S2", "agreement", "BaseSearcher._next_initial_config pops from the front", g, pops[0] if pops else None, "",
            "initial configurations are not served in the given order")
    # DEHB's internal sampler
    d = P.method("DifferentialEvolutionHyperbandScheduler", "_encoded_config_from_searcher")
    cd = cfg_of(d)
    pop0 = {n.id for n in cd.nodes if any(isinstance(x, ast.Call) and fn_name(x) == "pop" and "_points_to_evaluate" in U(x.func.value) and U(argn(x, 0)) == "0"
                                          for x in cd.node_walk(n.id))}
    draw = {n.id for n in cd.nodes if any(isinstance(x, ast.Call) and fn_name(x) == "uniform" and "random_state" in U(x.func.value) for x in cd.node_walk(n.id))}
    ok = bool(pop0) and bool(draw) and all(ctx.has_fact(d, x, lambda a: a[0] == "truth" and a[1] == "self._points_to_evaluate" and a[2] is False) for x in draw)
    rep.put(ok, "S2", "guarded_by", "DEHB internal sampler: random encoded configs only when no initial configuration is left", d, None, "")


def s3(ctx, rep):
    P = ctx.P
    f = P.func("syne_tune.optimizer.schedulers.searchers.searcher.impute_points_to_evaluate")
    cfg = cfg_of(f)
    resv = [U(r.value) for r in returns_of(f)]
    resv = resv[0] if len(resv) == 1 else "?"
    app = [(n.id, x) for n in cfg.nodes for x in cfg.node_walk(n.id) if isinstance(x, ast.Call) and fn_name(x) == "append" and U(x.func.value) == resv]
    ok = len(app) == 1
    # the other way to keep the first of each and the order of first appearance: a dict from the duplicate key to the configuration,
    # filled only for keys not yet in it, whose values are returned (dicts keep insertion order)
    rvals = [r.value for r in returns_of(f)]
    dname = None
    if not app and len(rvals) == 1 and isinstance(rvals[0], ast.Call) and fn_name(rvals[0]) == "list" and len(rvals[0].args) == 1 \
            and isinstance(rvals[0].args[0], ast.Call) and fn_name(rvals[0].args[0]) == "values" and isinstance(rvals[0].args[0].func.value, ast.Name):
        dname = rvals[0].args[0].func.value.id
    if dname is not None:
        from .common import dom_guard
        from ..engine import deref as _dr
        stores = [n for n in cfg.nodes if n.kind == "stmt" and isinstance(n.ast, ast.Assign) and isinstance(n.ast.targets[0], ast.Subscript)
                  and U(n.ast.targets[0].value) == dname]
        loop = [n for n in cfg.nodes if n.kind == "for"]
        fresh = any(isinstance(d, (ast.Dict, ast.Call)) and U(d) in ("{}", "dict()") for d in local_defs(f, dname) if not isinstance(d, tuple))
        ok = fresh and len(stores) == 1 and len(loop) == 1 and U(loop[0].ast.iter) == "points_to_evaluate"
        if ok:
            key = U(stores[0].ast.targets[0].slice)
            ok = any(a[0] == "in" and a[3] is False and a[1] == key and a[2] == dname for a in dom_guard(ctx, f, stores[0].id))
        rep.put(ok, "S3", "guarded_by", "impute_points_to_evaluate: appended in input order, only if not seen, and recorded as seen", f, None, "",
                "duplicates among the initial configurations are not removed, or the order is not the given one")
        if ok:
            stored = _dr(f, stores[0].ast.value)
            kx = _dr(f, stores[0].ast.targets[0].slice)
            okk = isinstance(kx, ast.Call) and fn_name(kx) == "_to_tuple" and argn(kx, 0) is not None and U(_dr(f, argn(kx, 0))) == U(stored) \
                and isinstance(stored, ast.Call) and fn_name(stored) == "_impute_default_config"
            rep.put(okk, "S3", "agreement", "impute_points_to_evaluate: the duplicate test is made on the imputed configuration that is appended", f,
                    stores[0].ast, "", "the key for the duplicate test is not built from the imputed configuration that is kept")
    elif ok:
        at = ctx.facts(f).at(app[0][0])
        seen = [a[2] for a in at if a[0] == "in" and a[3] is False]
        # the membership test is on a set local to the function
        seen = [s_ for s_ in seen if any(isinstance(d, ast.Call) and fn_name(d) == "set" for d in local_defs(f, s_) if not isinstance(d, tuple))]
        ok = len(seen) == 1
        loop = [n for n in cfg.nodes if n.kind == "for"]
        ok = ok and len(loop) == 1 and U(loop[0].ast.iter) == "points_to_evaluate"
        adds = [n.id for n in cfg.nodes if any(isinstance(x, ast.Call) and fn_name(x) == "add" and seen and U(x.func.value) == seen[0] for x in cfg.node_walk(n.id))]
        ok = ok and bool(adds) and cfg.path([s for s, l in cfg.succ[app[0][0]]], loop[0].id, deleted=set(adds), skip_labels=("exc",)) is None
    if dname is None:
        rep.put(ok, "S3", "guarded_by", "impute_points_to_evaluate: appended in input order, only if not seen, and recorded as seen", f, None, "",
                "duplicates among the initial configurations are not removed, or the order is not the given one")
    # what is compared for 'seen' is the configuration that is appended (imputed and cast), not the user's raw entry
    from ..engine import deref
    if len(app) == 1:
        appended = deref(f, argn(app[0][1], 0))
        keys_ = [x for x in walk_shallow(f.node) if isinstance(x, ast.Call) and fn_name(x) == "_to_tuple" and argn(x, 0) is not None]
        okk = len(keys_) >= 1 and all(U(deref(f, argn(k_, 0))) == U(appended) for k_ in keys_) and \
            isinstance(appended, ast.Call) and fn_name(appended) == "_impute_default_config"
        rep.put(okk, "S3", "agreement", "impute_points_to_evaluate: the duplicate test is made on the imputed configuration that is appended", f,
                keys_[0] if keys_ else None, "", f"the key for the duplicate test is built from `{U(argn(keys_[0], 0)) if keys_ else '?'}`, the appended value is "
                f"`{U(appended)[:60]}`: entries that become equal only after the mid-point rule / casting are both kept and the same "
                "configuration is suggested twice")
    tt = P.func("syne_tune.optimizer.schedulers.searchers.searcher._to_tuple")
    rt = returns_of(tt)
    okt = len(rt) == 1 and not any(isinstance(y, ast.Call) and fn_name(y) == "get" for y in ast.walk(rt[0].value))
    rep.put(okt, "S3", "agreement", "_to_tuple reads every key of the (complete) configuration", tt, rt[0] if rt else None, "",
            "`.get(k)` makes an incomplete entry comparable: missing values compare as None instead of the imputed default")
    dv = P.func("syne_tune.optimizer.schedulers.searchers.searcher._default_config_value")
    src_param = dv.params[0]
    bad = tainted_returns(dv, lambda e: isinstance(e, ast.Subscript) and isinstance(e.value, ast.Name) and e.value.id == src_param,
                          lambda c: fn_name(c) == "cast")
    rep.put(not bad, "S3", "taint", "_default_config_value: a user-supplied initial value enters the configuration only through Domain.cast", dv,
            bad[0][0] if bad else None, "", f"`{U(bad[0][0]) if bad else ''}` returns the value as the user wrote it, not the value cast to the "
            "domain: duplicates are removed on un-cast values, so two initial points that cast to the same configuration are both "
            "kept and the same configuration is suggested twice")
    im = P.func("syne_tune.optimizer.schedulers.searchers.searcher._impute_default_config")
    src = im.params[0]
    ok = any(isinstance(x, ast.Call) and fn_name(x) == "_default_config_value" for x in ast.walk(im.node)) and not any(
        isinstance(x, ast.Subscript) and isinstance(x.ctx, ast.Load) and U(x.value) == src for x in ast.walk(im.node)) and not any(
        isinstance(x, ast.Call) and fn_name(x) == "get" and U(x.func.value) == src for x in ast.walk(im.node))
    rep.put(ok, "S3", "agreement", "_impute_default_config takes given values through _default_config_value", im, None, "")
    ks = P.func("syne_tune.optimizer.schedulers.searchers.searcher._sorted_keys")
    ok = any(isinstance(x, ast.Call) and isinstance(x.func, ast.Name) and x.func.id == "sorted" for x in walk_shallow(ks.node))
    rep.put(ok, "S3", "agreement", "impute_points_to_evaluate compares configurations on the sorted hyperparameter keys", ks, None, "")


def s4(ctx, rep):
    P = ctx.P
    c = P.cls("StochasticAndFilterDuplicatesSearcher")
    f = c.methods["get_config"]
    cfg = cfg_of(f)
    src = ctx.nodes(f, ctx.sel_call(selfcall="_get_config"), "may", 0)
    add = {n.id for n in cfg.nodes if any(isinstance(x, ast.Call) and fn_name(x) == "add" and U(x.func.value) == "self._excl_list" for x in cfg.node_walk(n.id))}
    if src and not add:
        rep.bad("S4", "must_follow", "StochasticAndFilterDuplicatesSearcher.get_config: every returned configuration is recorded when duplicates are not allowed",
                f, None, "get_config never adds to self._excl_list: a configuration is returned without being added to the exclusion list, it can be suggested again")
        return
    if not src or not add:
        raise AnchorError("StochasticAndFilterDuplicatesSearcher.get_config: _get_config / _excl_list.add not found")
    p = cfg.path([s for s, l in cfg.succ[next(iter(src))]], cfg.exit, deleted=add, skip_labels=("exc",),
                 edge_ok=_edge_assume(["not self._allow_duplicates", f"{var_from_call(f, '_get_config')} is not None"]))
    rep.put(p is None, "S4", "must_follow", "StochasticAndFilterDuplicatesSearcher.get_config: every returned configuration is recorded when duplicates are not allowed",
            f, None, "", "a configuration is returned without being added to the exclusion list: it can be suggested again",
            witness=cfg.describe_path(p) if p else None)
    # the recorded configuration is the returned one
    call = [x for n in add for x in cfg.node_walk(n) if isinstance(x, ast.Call) and fn_name(x) == "add"][0]
    rets = [U(r.value) for r in returns_of(f)]
    rep.put(bool(rets) and set(rets) == {U(argn(call, 0))}, "S4", "agreement", "StochasticAndFilterDuplicatesSearcher.get_config records the configuration it returns", f, call, "")
    for sub in P.all_subclasses(c):
        if "get_config" in sub.methods and "_get_config" not in sub.methods:
            m = sub.methods["get_config"]
            sup = any(isinstance(x, ast.Call) and fn_name(x) == "get_config" and isinstance(x.func.value, ast.Call) and fn_name(x.func.value) == "super"
                      for x in walk_shallow(m.node))
            rep.put(sup, "S4", "sibling", f"{sub.name} implements _get_config (or delegates to super().get_config)", m, None, "",
                    f"{sub.name} overrides get_config and bypasses the exclusion-list bookkeeping")
    s = P.func("syne_tune.optimizer.schedulers.searchers.searcher_base.sample_random_configuration")
    cs = cfg_of(s)
    # every place a freshly drawn configuration becomes the result (stored in the returned variable, or returned directly)
    # is dominated by "no exclusion list given" or "the exclusion list does not contain it"
    drawn = set(vars_assigned_from(s, lambda v: isinstance(v, ast.Call) and fn_name(v) == "random_config"))
    # ... or taken one by one from a (lazy) sequence of such draws
    is_draw = lambda v: isinstance(v, ast.Call) and fn_name(v) == "random_config"
    for lp in walk_shallow(s.node):
        if isinstance(lp, ast.For) and isinstance(lp.target, ast.Name):
            src_ = deref(s, lp.iter)
            if isinstance(src_, (ast.GeneratorExp, ast.ListComp)) and is_draw(src_.elt):
                drawn.add(lp.target.id)
    if not drawn:
        raise AnchorError("sample_random_configuration: no variable assigned from random_config found")
    sites = [n for n in cs.nodes if n.kind in ("stmt", "return") and isinstance(n.ast, (ast.Assign, ast.Return)) and n.ast.value is not None
             and U(n.ast.value) in drawn]
    if not sites:
        raise AnchorError("sample_random_configuration: the drawn configuration never becomes the result")

    def _absent(x):
        return x[0] == "truth" and x[2] is True and (
            "exclusion_list is None" in x[1]
            or any("exclusion_list is None" in U(dd) for dd in local_defs(s, x[1]) if not isinstance(dd, tuple)))

    def _fresh(x, cand):
        return x[0] == "truth" and x[2] is False and f"contains({cand})" in x[1]

    ok = True
    for n in sites:
        cand = U(n.ast.value)
        at = ctx.facts(s).at(n.id)
        good = any(_absent(a) or _fresh(a, cand) for a in at) or any(
            a[0] == "or" and all(any(_absent(x) or _fresh(x, cand) for x in d) for d in a[1]) for a in at)
        ok = ok and good
    rep.put(ok, "S4", "guarded_by", "sample_random_configuration returns only a configuration the exclusion list does not contain", s, None, "",
            "random sampling can return an excluded configuration")
    b = P.func("syne_tune.optimizer.schedulers.searchers.bayesopt.tuning_algorithms.bo_algorithm._pick_from_locally_optimized")
    cb = cfg_of(b)
    loop = [n for n in walk_shallow(b.node) if isinstance(n, ast.For) and isinstance(n.target, ast.Tuple) and len(n.target.elts) == 2]
    if len(loop) != 1:
        raise AnchorError("_pick_from_locally_optimized: loop over (original, optimised) candidates not found")
    orig, opt = U(loop[0].target.elts[0]), U(loop[0].target.elts[1])
    exl = var_from_call(b, "copy")
    def _is_dup_test(e, cand):
        return isinstance(e, ast.Call) and fn_name(e) == "contains" and "duplicate_detector" in U(e.func.value) and \
            argn(e, 0) is not None and argn(e, 1) is not None and U(argn(e, 0)) == exl and U(argn(e, 1)) == cand

    def _dup(at, cand, truth):
        """the atoms say: the duplicate test of `cand` against the running exclusion list came out `truth`"""
        for x in at:
            if x[0] != "truth" or x[2] is not truth:
                continue
            try:
                e = ast.parse(x[1], mode="eval").body
            except SyntaxError:
                continue
            if _is_dup_test(e, cand):
                return True
            if isinstance(e, ast.Name) and any(not isinstance(d, tuple) and _is_dup_test(d, cand) for d in local_defs(b, e.id)):
                return True
        return False
    appc = [x for x in walk_shallow(b.node) if isinstance(x, ast.Call) and fn_name(x) == "append"]
    insv = U(argn(appc[0], 0)) if appc else "?"
    ins = [n for n in cb.nodes if n.kind == "stmt" and isinstance(n.ast, ast.Assign) and U(n.ast.targets[0]) == insv and U(n.ast.value) != "None"]
    ok = len(ins) == 2 and exl is not None
    for n in ins:
        at = ctx.facts(b).at(n.id)
        v = U(n.ast.value)
        if v == opt:
            ok = ok and _dup(at, opt, False)
        elif v == orig:
            ok = ok and _dup(at, orig, False) and _dup(at, opt, True)
        else:
            ok = False
    rep.put(ok, "S4", "guarded_by", "_pick_from_locally_optimized inserts the optimised candidate only if new, else the original only if new", b, None, "")
    addn = {n.id for n in cb.nodes if any(isinstance(x, ast.Call) and fn_name(x) == "add" and exl is not None and U(x.func.value) == exl for x in cb.node_walk(n.id))}
    appn = [n.id for n in cb.nodes if any(x is appc[0] for x in cb.node_walk(n.id))] if appc else []
    head = [n.id for n in cb.nodes if n.kind == "for"]
    ok = bool(addn) and bool(appn) and cb.path([s_ for s_, l in cb.succ[appn[0]]], head + [cb.exit], deleted=addn, skip_labels=("exc",)) is None
    rep.put(ok, "S4", "must_follow", "_pick_from_locally_optimized: every inserted candidate is added to the running exclusion list", b, None, "")


def _edge_assume(conds):
    from ..core.facts import edge_filter
    return edge_filter(conds)


def s5(ctx, rep):
    P = ctx.P
    f = P.method("TuningJobState", "all_configurations")
    from ..engine import flows_into
    need = ["self.pending_evaluations", "self.failed_trials", "self.trials_evaluations"]
    # all three flow into the returned list
    rets = returns_of(f)
    ok = len(rets) == 1 and all(flows_into(f, rets[0].value, lambda y, n=n: isinstance(y, ast.Attribute) and U(y) == n) for n in need)
    rep.put(ok, "S5", "agreement", "TuningJobState.all_configurations unions pending, failed and observed trials", f, None, str(need),
            "one of pending / failed / observed configurations is not excluded from new suggestions")
    # the union is monotone in the pending and failed trials: nothing they flow into is filtered or subtracted from
    # (the optional filter applies to the observed trials alone)
    must_stay = ["self.pending_evaluations", "self.failed_trials"]

    def protected(e):
        return [n for n in must_stay if flows_into(f, e, lambda y, n=n: isinstance(y, ast.Attribute) and U(y) == n)]
    bad = []
    for x in walk_shallow(f.node):
        if isinstance(x, ast.Call) and isinstance(x.func, ast.Attribute) and x.func.attr in (
                "difference_update", "difference", "discard", "remove", "pop", "intersection_update", "intersection",
                "symmetric_difference_update", "clear") and protected(x.func.value):
            bad.append((x, f"`{U(x)[:60]}` removes entries from a collection holding {protected(x.func.value)}"))
        if isinstance(x, ast.BinOp) and isinstance(x.op, (ast.Sub, ast.BitAnd, ast.BitXor)) and protected(x.left):
            bad.append((x, f"`{U(x)[:60]}` subtracts from a collection holding {protected(x.left)}"))
        if isinstance(x, ast.AugAssign) and isinstance(x.op, (ast.Sub, ast.BitAnd, ast.BitXor)) and protected(x.target):
            bad.append((x, f"`{U(x)[:60]}` subtracts from a collection holding {protected(x.target)}"))
        if isinstance(x, ast.comprehension) and x.ifs and protected(x.iter) and not isinstance(getattr(x, "_parent", None), ast.DictComp):
            # a filtering comprehension over pending/failed ids (x.trial_id for x in ... is a map, not a filter)
            bad.append((x.iter, f"comprehension over {protected(x.iter)} with a condition `{U(x.ifs[0])[:50]}`"))
        if isinstance(x, ast.Call) and fn_name(x) == "filter" and len(x.args) == 2 and protected(argn(x, 1)):
            bad.append((x, f"filter(...) over {protected(argn(x, 1))}"))
    rep.put(not bad, "S5", "taint", "TuningJobState.all_configurations: pending and failed trials are never filtered or subtracted", f,
            bad[0][0] if bad else None, "only the observed trials pass through filter_observed_data",
            (bad[0][1] if bad else "") + ": a failed or pending trial can drop out of the exclusion list and its configuration is suggested again")
    # ... and the black list survives a copy of the state: wherever a TuningJobState is assembled field by field from another
    # state, the failed trials are among the fields carried over; the state transformer starts from a copy of the whole state
    n_fw = 0
    for g in sorted(P.functions.values(), key=lambda g_: g_.qualname):
        for x in walk_shallow(g.node, include_lambda=True):
            if not (isinstance(x, ast.Call) and fn_name(x) == "TuningJobState"):
                continue
            srcs = {}
            for kw_ in x.keywords:
                if kw_.arg:
                    for y in ast.walk(kw_.value):
                        if isinstance(y, ast.Attribute) and y.attr == kw_.arg and isinstance(y.value, (ast.Name, ast.Attribute)):
                            srcs.setdefault(U(y.value), set()).add(kw_.arg)
            for o, ks in sorted(srcs.items()):
                if len(ks) >= 2 and not any(k_.arg is None for k_ in x.keywords):
                    n_fw += 1
                    rep.put("failed_trials" in ks, "S5", "agreement", f"{g.short}: a TuningJobState assembled from the fields of `{o}` carries its failed trials", g, x,
                            f"copied {sorted(ks)}", f"the state built from `{o}` takes {sorted(ks)} but not failed_trials: in the new state no trial has failed, "
                            "the failed configurations leave the exclusion list and are suggested again")
    mi = P.method("ModelStateTransformer", "__init__")
    st_ = [x_ for x_ in walk_shallow(mi.node) if isinstance(x_, ast.Assign) and any(U(t) == "self._state" for t in x_.targets)]
    whole = [x_ for x_ in st_ if isinstance(x_.value, ast.Call) and fn_name(x_.value) in ("copy", "deepcopy") and argn(x_.value, 0) is not None
             and U(argn(x_.value, 0)) in mi.params]
    fieldwise = [x_ for x_ in st_ if isinstance(x_.value, ast.Call) and fn_name(x_.value) == "TuningJobState"]
    rep.put(bool(st_) and len(whole) + len(fieldwise) == len(st_), "S5", "agreement", "ModelStateTransformer starts from a copy of the whole initial state", mi,
            st_[0] if st_ else None, "", "the transformer's state is not a copy of the state it was given (fields can be missing, or the caller's state is modified in place)")


def s5b(ctx, rep):
    """typestate of a suggested trial in the model-based searchers: pending -> observed | failed.  A trial that leaves the
    pending list without entering one of the other two drops out of the exclusion list (pending + failed + observed)."""
    P = ctx.P
    RECORD = ("mark_trial_failed", "metrics_for_trial", "label_trial")
    n = 0
    for f in sorted(P.functions.values(), key=lambda f: f.qualname):
        if f.name == "drop_pending_evaluation":
            continue
        calls = [x for x in walk_shallow(f.node) if isinstance(x, ast.Call) and fn_name(x) == "drop_pending_evaluation"]
        if not calls:
            continue
        cfg = cfg_of(f)
        rec = {nd.id for nd in cfg.nodes for x in cfg.node_walk(nd.id) if isinstance(x, ast.Call) and fn_name(x) in RECORD}
        for c in calls:
            nid = [nd.id for nd in cfg.nodes if any(x is c for x in cfg.node_walk(nd.id))]
            if not nid:
                continue
            n += 1
            # a path through the drop that records the trial neither before nor after it
            p = None
            if nid[0] not in rec and cfg.path(cfg.entry, nid[0], deleted=rec, skip_labels=("exc",)) is not None:
                p = cfg.path([s_ for s_, l in cfg.succ[nid[0]]], cfg.exit, deleted=rec, skip_labels=("exc",))
            rep.put(p is None, "S5", "typestate", f"{f.short}: a trial dropped from pending is recorded as observed or failed", f, c,
                    "every path through it also passes " + " / ".join(RECORD),
                    "the pending evaluation is dropped and the function can return without recording the trial as observed "
                    "(label) or failed: the trial is then in none of pending / failed / observed, its configuration leaves the "
                    "exclusion list and is suggested again", witness=cfg.describe_path(p) if p else None)
    if n < 3:
        raise AnchorError(f"C06-S5: only {n} drop_pending_evaluation call sites found (3 confirmed: label_trial x2, evaluation_failed)")


def s6(ctx, rep):
    P = ctx.P
    f = P.method("GridSearcher", "_next_candidate_on_grid")
    cfg = cfg_of(f)
    heads = [n for n in cfg.nodes if n.kind == "test" and isinstance(n.stmt, ast.While)]
    if len(heads) != 1:
        raise AnchorError("GridSearcher._next_candidate_on_grid: while loop not found")
    h = heads[0]
    use = [n.id for n in cfg.nodes if n.kind == "stmt" and isinstance(n.ast, ast.Assign) and "hp_values_combinations[self._next_index]" in U(n.ast.value)]
    inc = [n.id for n in cfg.nodes if n.kind == "stmt" and isinstance(n.ast, ast.AugAssign) and U(n.ast.target) == "self._next_index"
           and isinstance(n.ast.op, ast.Add) and U(n.ast.value) == "1"]
    ok = len(use) == 1 and len(inc) == 1
    if ok:
        body = [s for s, l in cfg.succ[h.id] if isinstance(l, tuple) and l[2] is True]
        # each iteration: candidate taken at the index, then exactly one increment before returning to the loop test
        ok = cfg.path(body, h.id, deleted={inc[0]}, skip_labels=("exc",)) is None and cfg.path(body, inc[0], deleted={use[0]}) is None
        ok = ok and inc[0] not in cfg.reachable([s for s, l in cfg.succ[inc[0]]], deleted={h.id})
    rep.put(ok, "S6", "cursor", "GridSearcher._next_candidate_on_grid: index advanced exactly once per candidate taken", f, None, "",
            "the grid index is advanced twice, or not at all, on some path: candidates are skipped or repeated")
    rs = [n for n in cfg.nodes if n.kind == "stmt" and isinstance(n.ast, ast.Assign) and U(n.ast.targets[0]) == "self._next_index" and U(n.ast.value) == "0"]
    ok = len(rs) == 1 and ctx.has_fact(f, rs[0].id, lambda a: a[0] == "truth" and a[1] == "self._allow_duplicates" and a[2] is True) and \
        ctx.has_fact(f, rs[0].id, lambda a: a[0] == "eq" and a[3] is True and "self._next_index" in (a[1], a[2]) and
                     any("len(self.hp_values_combinations)" == U(d) for x_ in (a[1], a[2]) for d in local_defs(f, x_) if not isinstance(d, tuple)))
    rep.put(ok, "S6", "guarded_by", "GridSearcher._next_candidate_on_grid: index reset only when duplicates are allowed and the grid is used up", f,
            rs[0].ast if rs else None, "", "the grid is enumerated a second time although duplicates are not allowed")
    ok = any(a[0] == "lt" and a[1] == "self._next_index" and any("len(self.hp_values_combinations)" == U(d) for d in local_defs(f, a[2]) if not isinstance(d, tuple))
             for a in atoms_of(h.ast, True))
    rep.put(ok, "S6", "guarded_by", "GridSearcher._next_candidate_on_grid: stops at the end of the grid", f, h.stmt, "")
    g = P.method("GridSearcher", "get_config")
    cg = cfg_of(g)
    a = ctx.nodes(g, ctx.sel_call(selfcall="_next_initial_config"), "must", 0)
    rec = {n.id for n in cg.nodes if any(isinstance(x, ast.Call) and fn_name(x) == "add" and "_all_initial_configs" in U(x.func.value) for x in cg.node_walk(n.id))}
    qv = var_from_call(g, "_next_initial_config")
    ok = bool(rec) and qv is not None and all(ctx.has_fact(g, n, lambda a_: a_[0] == "is" and a_[1] == qv and a_[3] is False) for n in rec)
    rep.put(ok, "S6", "guarded_by", "GridSearcher.get_config records initial configurations so the grid skips them", g, None, "")


def s6b(ctx, rep):
    """the grid is a product of lists of DISTINCT values: several grid positions of an integer / log-integer range decode
    to the same value, so each per-hyperparameter list is de-duplicated before the product is formed"""
    P = ctx.P
    # the place where the grid is formed - product(*lists) - in whichever method of the searcher; when the lists come back from a method
    # of the searcher (a, lists = self._m()), that method and the list it returns at that position are what is examined
    gs = P.cls("GridSearcher")
    prods = [(m_, x) for m_ in gs.methods.values() for x in walk_shallow(m_.node)
             if isinstance(x, ast.Call) and fn_name(x) == "product" and x.args and isinstance(argn(x, 0), ast.Starred)]
    if len(prods) != 1:
        raise AnchorError("GridSearcher: product(*lists) not found exactly once")
    f, pcall = prods[0]
    lv = U(argn(pcall, 0).value)
    for d in local_defs(f, lv):
        if isinstance(d, tuple) and d[0] == "unpack" and isinstance(d[1], ast.Call) and isinstance(d[1].func, ast.Attribute) and U(d[1].func.value) == "self":
            m2 = P.lookup_method(gs, d[1].func.attr)
            r2 = [r.value for r in returns_of(m2)] if m2 is not None else []
            if len(r2) == 1 and isinstance(r2[0], ast.Tuple) and d[2] < len(r2[0].elts) and isinstance(r2[0].elts[d[2]], ast.Name):
                f, lv = m2, r2[0].elts[d[2]].id
    cfg = cfg_of(f)

    def dedup(e, depth=3):
        """expression whose value has no repeated elements"""
        from ..engine import local_defs as _ld
        if isinstance(e, ast.Name) and depth > 0:
            ds = _ld(f, e.id)
            if len(ds) == 1 and isinstance(ds[0], ast.AST):
                return dedup(ds[0], depth - 1)
            return False
        if isinstance(e, ast.Call) and fn_name(e) in ("list", "sorted", "tuple") and e.args:
            return dedup(argn(e, 0))
        if isinstance(e, ast.Call) and fn_name(e) in ("set", "frozenset", "unique", "fromkeys"):
            return True
        if isinstance(e, (ast.Set, ast.SetComp)):
            return True
        if isinstance(e, ast.List) and len(e.elts) == 1:
            return True
        return False
    n = 0
    for nd in cfg.nodes:
        for x in cfg.node_walk(nd.id):
            if not (isinstance(x, ast.Call) and fn_name(x) == "append" and U(x.func.value) == lv and x.args):
                continue
            v = argn(x, 0)
            # what is counted are the kinds of value lists that can reach the grid (one per definition of an appended local), not
            # how many append statements they are spread over
            n += max(1, len([m for m in cfg.nodes if m.kind == "stmt" and isinstance(m.ast, ast.Assign) and isinstance(v, ast.Name)
                             and any(U(t_) == v.id for t_ in m.ast.targets)]))
            ok, why = False, U(v)
            if dedup(v):
                ok = True
            elif isinstance(v, ast.Attribute) and v.attr == "values" and ctx.has_fact(f, nd.id, lambda a: a[0] == "isinstance" and a[2] == "FiniteRange" and a[3] is True):
                ok, why = True, "FiniteRange.values (lower + k * step, distinct by construction)"
            elif isinstance(v, ast.Name):
                defs = [m for m in cfg.nodes if m.kind == "stmt" and isinstance(m.ast, ast.Assign) and any(U(t) == v.id for t in m.ast.targets)]
                fin = lambda m: isinstance(m.ast.value, ast.Attribute) and m.ast.value.attr == "values" and ctx.has_fact(
                    f, m.id, lambda a: a[0] == "isinstance" and a[2] == "FiniteRange" and a[3] is True)
                good = {m.id for m in defs if dedup(m.ast.value) or fin(m)}
                ok = bool(good) and all(m.id in good or cfg.path([s_ for s_, l in cfg.succ[m.id]], nd.id, deleted=good) is None for m in defs)
                why = " | ".join(U(m.ast.value)[:50] for m in defs)
            rep.put(ok, "S6", "taint", f"GridSearcher._generate_all_candidates_on_grid: value list `{U(v)[:30]}` is de-duplicated before the product", f, x, why,
                    f"`{why}` reaches product(...) without passing set() / fromkeys() / unique(): grid positions that decode to the same value "
                    "(integer and log-integer ranges) give repeated grid points - grid search suggests a configuration twice and says "
                    "'nothing left' too late")
    if n < 4:
        raise AnchorError(f"C06-S6: {n} value lists appended to the grid (4 confirmed)")


def s4b(ctx, rep):
    """guard table for 'no repeats' (found thin by the generic mutation audit)"""
    from .common import require_guard, dom_guard
    P = ctx.P
    # greedy batch selection: what one round of the batch picked is excluded before the next round draws
    nc = P.method("BayesianOptimizationAlgorithm", "next_candidates")
    cn = cfg_of(nc)
    inner = var_from_call(nc, "_get_next_candidates")
    if inner is None:
        raise AnchorError("BayesianOptimizationAlgorithm.next_candidates: `inner = self._get_next_candidates(...)` not found")
    adds = [(n_.id, x) for n_ in cn.nodes for x in cn.node_walk(n_.id) if isinstance(x, ast.Call) and fn_name(x) == "add" and "exclusion_candidates" in U(x.func.value)]
    inner_def = U(deref(nc, ast.Name(id=inner, ctx=ast.Load())))
    lps = [l for l in cn.nodes if l.kind == "for" and U(deref(nc, l.ast.iter)) in (inner, inner_def) and any(isinstance(x, ast.Call) and (x.lineno, x.col_offset) == (a.lineno, a.col_offset) for st in l.ast.body for x in ast.walk(st) for _, a in adds)]
    okb = len(adds) == 1 and len(lps) == 1 and argn(adds[0][1], 0) is not None and U(argn(adds[0][1], 0)) == U(lps[0].ast.target)
    if okb:
        outer = [l for l in cn.nodes if l.kind == "for" and l is not lps[0] and any(x is lps[0].ast for st in l.ast.body for x in ast.walk(st))]
        ov = U(outer[0].ast.target) if outer else None
        extra = [a for a in dom_guard(ctx, nc, lps[0].id) if not (
            (a[0] == "lt" and a[1] == ov) or (a[0] == "lt" and a[1] == "0" and a[2] == f"len({inner})") or (a[0] == "truth" and a[1] == inner and a[2] is True))]
        okb = ov is not None and not extra and cn.path([s_ for s_, l in cn.succ[lps[0].id] if l == "iter"], lps[0].id, deleted={adds[0][0]}, skip_labels=("exc",)) is None
    # random phase of a batch: each configuration put into the batch is excluded at once (the same exclusion list is then handed to
    # the model-based part of the batch)
    gb = P.method("BayesianOptimizationSearcher", "get_batch_configs")
    cg_ = cfg_of(gb)
    exv = var_from_call(gb, "_get_exclusion_candidates")
    rnd = [x for x in walk_shallow(gb.node) if isinstance(x, ast.Assign) and isinstance(x.value, ast.Call) and fn_name(x.value) == "_get_config_not_modelbased"
           and isinstance(x.targets[0], ast.Tuple)]
    okr = exv is not None and len(rnd) == 1 and argn(rnd[0].value, 0) is not None and U(argn(rnd[0].value, 0)) == exv
    if okr:
        cv = U(rnd[0].targets[0].elts[0])
        apps = [n_.id for n_ in cg_.nodes for x in cg_.node_walk(n_.id) if isinstance(x, ast.Call) and fn_name(x) == "append" and argn(x, 0) is not None and U(argn(x, 0)) == cv]
        excl = {n_.id for n_ in cg_.nodes for x in cg_.node_walk(n_.id) if isinstance(x, ast.Call) and fn_name(x) == "add" and U(x.func.value) == exv
                and argn(x, 0) is not None and U(argn(x, 0)) == cv}
        rn = [n_.id for n_ in cg_.nodes if n_.kind == "stmt" and n_.ast is rnd[0]]
        okr = bool(apps) and bool(excl) and bool(rn) and all(cg_.path([a_], rn[0], deleted=excl, skip_labels=("exc",)) is None for a_ in apps)
        bo = [x for x in walk_shallow(gb.node) if isinstance(x, ast.Call) and fn_name(x) == "BayesianOptimizationAlgorithm"]
        okr = okr and len(bo) == 1 and kwarg(bo[0], "exclusion_candidates") is not None and U(kwarg(bo[0], "exclusion_candidates")) == exv
    rep.put(okr, "S4", "must_follow", "BayesianOptimizationSearcher.get_batch_configs: a random pick is excluded before the next pick of the batch", gb, None, "",
            "two random picks of one batch (or a random and a model-based pick) can be the same configuration")
    rep.put(okb, "S4", "must_follow", "BayesianOptimizationAlgorithm.next_candidates: every candidate of a round is excluded before the next round", nc,
            adds[0][1] if adds else None, "", "a later round of a greedy batch can pick a configuration an earlier round picked: one batch holds the same configuration twice")
    f = P.method("ModelBasedSearcher", "_get_config_not_modelbased")
    cfg = cfg_of(f)
    rv = var_from_call(f, "get_config")
    if rv is None:
        raise AnchorError("_get_config_not_modelbased: `_config = self._random_searcher.get_config()` not found")
    acc = [n.id for n in cfg.nodes if n.kind == "stmt" and isinstance(n.ast, ast.Assign) and isinstance(n.ast.value, ast.Name) and n.ast.value.id == rv]
    require_guard(ctx, rep, "S4", f, "ModelBasedSearcher._get_config_not_modelbased: a random configuration is accepted | it is not excluded", acc,
                  [("not exclusion_candidates.contains(config)", lambda a: a[0] == "truth" and a[1].endswith(f".contains({rv})") and a[2] is False)],
                  "a configuration that is pending, failed or was suggested before is suggested again in the random phase")
    g = P.method("GridSearcher", "_next_candidate_on_grid")
    cg = cfg_of(g)
    cand = [U(r.value) for r in returns_of(g) if isinstance(r.value, ast.Name)]
    if len(set(cand)) != 1:
        raise AnchorError("GridSearcher._next_candidate_on_grid does not return its candidate variable")
    in_while = lambda n: any(p_.stmt is not None and isinstance(p_.stmt, ast.While) and n.stmt in list(stmts_in(p_.stmt.body)) for p_ in cg.nodes)
    acc_ = [n for n in cg.nodes if n.kind == "stmt" and isinstance(n.ast, ast.Return) and isinstance(n.ast.value, ast.Name) and n.ast.value.id == cand[0] and in_while(n)]
    drops_ = [n for n in cg.nodes if n.kind == "stmt" and isinstance(n.ast, ast.Assign) and U(n.ast.targets[0]) == cand[0]
              and isinstance(n.ast.value, ast.Constant) and n.ast.value.value is None and in_while(n)]
    if acc_ and not drops_:
        # written with an early exit: a grid point is returned from inside the scan only if it was not an initial configuration
        from .common import dom_guard
        ok_ = all(any(a[0] == "truth" and a[1].startswith("self._all_initial_configs.contains(") and a[2] is False for a in dom_guard(ctx, g, n.id)) for n in acc_)
        rep.put(ok_, "S6", "guarded_by", "GridSearcher._next_candidate_on_grid: a grid point is skipped | it was already suggested as an initial configuration", g,
                acc_[0].ast, "returned from the scan only under `not self._all_initial_configs.contains(candidate)`",
                "grid points that were suggested as initial configurations are suggested again (and all the others are skipped)")
    drop = [] if (acc_ and not drops_) else [n.id for n in cg.nodes if n.kind == "stmt" and isinstance(n.ast, ast.Assign) and U(n.ast.targets[0]) == cand[0]
            and isinstance(n.ast.value, ast.Constant) and n.ast.value.value is None and any(l.kind in ("while", "test") for l in cg.nodes)
            and any(p_.stmt is not None and isinstance(p_.stmt, ast.While) and n.stmt in list(stmts_in(p_.stmt.body)) for p_ in cg.nodes)]
    if not (acc_ and not drops_):
        require_guard(ctx, rep, "S6", g, "GridSearcher._next_candidate_on_grid: a grid point is skipped | it was already suggested as an initial configuration", drop,
                      [("self._all_initial_configs.contains(candidate)", lambda a: a[0] == "truth" and a[1].startswith("self._all_initial_configs.contains(") and a[2] is True)],
                      "grid points that were suggested as initial configurations are suggested again (and all the others are skipped)")
    h = P.method("BaseSearcher", "_next_initial_config")
    ch = cfg_of(h)
    pops = [n.id for n in ch.nodes for x in ch.node_walk(n.id) if isinstance(x, ast.Call) and fn_name(x) == "pop" and "_points_to_evaluate" in U(x.func.value)]
    require_guard(ctx, rep, "S2", h, "BaseSearcher._next_initial_config: the queue is popped | it is not empty", pops,
                  [("self._points_to_evaluate", lambda a: (a[0] == "truth" and a[1] == "self._points_to_evaluate" and a[2] is True) or
                    (a[0] == "lt" and a[1] == "0" and a[2] == "len(self._points_to_evaluate)") or
                    (a[0] == "le" and a[1] == "1" and a[2] == "len(self._points_to_evaluate)"))],
                  "initial configurations are never returned (or pop from an empty list raises)")


def s7(ctx, rep):
    P = ctx.P
    f = P.method("PopulationBasedTraining", "_explore")
    rets = [U(r.value) for r in returns_of(f) if isinstance(r.value, ast.Name)]
    stores = [x for x in walk_shallow(f.node) if isinstance(x, ast.Assign) and isinstance(x.targets[0], ast.Subscript)
              and U(x.targets[0].value) in rets]
    if len(stores) < 2:
        raise AnchorError("PBT._explore: stores into new_config not found")
    for st in stores:
        v = st.value
        ok = False
        how = ""
        dom = [U(n.target.elts[1]) for n in walk_shallow(f.node) if isinstance(n, ast.For) and isinstance(n.target, ast.Tuple)
               and len(n.target.elts) == 2 and "config_space.items()" in U(n.iter)]
        dom = dom[0] if dom else "?"
        if isinstance(v, ast.Call) and fn_name(v) == "sample" and U(v.func.value) == dom:
            ok = kwarg(v, "random_state") is not None
            how = "hp_range.sample(random_state=...)"
        elif isinstance(v, ast.Call) and fn_name(v) == "cast" and U(v.func.value) == dom and v.args and isinstance(argn(v, 0), ast.Call) \
                and fn_name(argn(v, 0)) == "clip":
            c = argn(v, 0)
            ok = len(c.args) == 3 and U(argn(c, 1)) == f"{dom}.lower" and U(argn(c, 2)) == f"{dom}.upper"
            how = "hp_range.cast(np.clip(·, lower, upper))"
        rep.put(ok, "S7", "taint", f"PopulationBasedTraining._explore: new_config[key] := {how or U(v)[:40]}", f, st, "",
                f"`{U(st)[:80]}` stores a perturbed value that is neither sampled from the domain nor clipped to its bounds and cast")


def s4c_dehb_retry(ctx, rep, clause="S4"):
    """DEHB's own sampler retries while the drawn configuration is a duplicate; a draw that turned out to be a duplicate is forgotten
    before the next attempt, so that running out of attempts means 'no suggestion' and not 'the last duplicate'"""
    f = ctx.P.method("DifferentialEvolutionHyperbandScheduler", "_suggest")
    cfg = cfg_of(f)
    tests = [n for n in cfg.nodes if n.kind == "test" and any(isinstance(x, ast.Call) and fn_name(x) == "contains" and "_excl_list" in U(x.func.value)
                                                               for x in cfg.node_walk(n.id))]
    loops = [l for l in cfg.nodes if l.kind == "for" and any(t_.stmt is not None and any(t_.stmt is s_ for s_ in stmts_in(l.ast.body)) for t_ in tests)]
    if len(tests) != 1 or len(loops) != 1:
        raise AnchorError("DEHB._suggest: retry loop with the duplicate test not found")
    tn, lp = tests[0], loops[0]
    # the variable that carries the draw out of the loop: tested for None after it
    after = [a[1] for n in cfg.nodes if n.kind == "test" and n.lineno > lp.lineno for a in atoms_of(n.ast, True)
             if a[0] == "is" and a[2] == "None" and a[1].isidentifier()]
    # ... and it is what the duplicate test looks at (decoded)
    from ..engine import deref as _dr
    tested = set()
    for x in cfg.node_walk(tn.id):
        if isinstance(x, ast.Call) and fn_name(x) == "contains":
            for a_ in x.args:
                for y in ast.walk(_dr(f, a_)):
                    if isinstance(y, ast.Name):
                        tested.add(y.id)
                        tested |= {z.id for z in ast.walk(_dr(f, y)) if isinstance(z, ast.Name)}
    carried = [v for v in after if v in tested and any(isinstance(x, ast.Name) and x.id == v for s_ in lp.ast.body for x in ast.walk(s_))]
    if not carried:
        raise AnchorError("DEHB._suggest: the variable carrying the drawn configuration out of the retry loop is not identified")
    var = carried[0]
    resets = {n.id for n in cfg.nodes if n.kind == "stmt" and isinstance(n.ast, ast.Assign) and U(n.ast.targets[0]) == var
              and isinstance(n.ast.value, ast.Constant) and n.ast.value.value is None}
    dup = []
    for s_, l_ in cfg.succ[tn.id]:
        if isinstance(l_, tuple) and l_[0] == "cond":
            at = atoms_of(l_[1], l_[2])
            if any(a[0] == "truth" and "contains(" in a[1] and a[2] is True for a in at):
                dup.append(s_)
    p_ = cfg.path(dup, lp.id, deleted=resets, skip_labels=("exc",)) if dup else None
    rep.put(bool(dup) and p_ is None, clause, "must_follow", "DEHB._suggest: a drawn duplicate is forgotten before the next attempt", f, tn.ast, "",
            f"after the draw turned out to be a duplicate the loop goes on with `{var}` still holding it: when the attempts run out the last duplicate "
            "is started as a new trial instead of answering 'no suggestion'", witness=cfg.describe_path(p_) if p_ else None)


def run(ctx, rep, tier="quick"):
    s4c_dehb_retry(ctx, rep)
    from . import c16
    # a suggested value lies inside its domain because every decoded value is clipped to the domain's bounds after it has left the
    # internal (log / integer) scale - shared with C07-S2
    from . import c07
    from .common import take_over
    take_over(ctx, rep, c07.s2, "S1")
    c16.restore_unconditional(ctx, rep, "S2")     # the queue of initial configurations comes back as it was saved (shared with C16-S2)
    s1(ctx, rep)
    s2(ctx, rep)
    s3(ctx, rep)
    s4(ctx, rep)
    s4b(ctx, rep)
    s5(ctx, rep)
    s5b(ctx, rep)
    s6(ctx, rep)
    s6b(ctx, rep)
    s7(ctx, rep)
