"""C04 - promotion-type Hyperband (ASHA, PASHA, cost-aware, RUSH) promotes only eligible trials."""
import ast

from ..core.model import AnchorError
from ..core.cfg import walk_shallow, cfg_of
from ..core.facts import U, atoms_of
from ..engine import argn, fn_name, kwarg, local_defs, returns_of, stmts_in, dict_items, vars_assigned_from, var_from_call
from ..kinds import parity

EXPLANATION = (
    "Decides structural clauses of C04: S1 a promotion is returned only after the chosen entry was marked as promoted (and "
    "the marking asserts it was not promoted before, then re-inserts it); S2 every _find_promotable_trial implementation "
    "accepts an entry only through _is_promotable_trial, whose base is 'not was_promoted' and whose overrides conjoin the "
    "base; the cost-aware variant accumulates the cost of every entry in rank order before any test; S3 a trial pauses "
    "exactly at its milestone (assert resource == milestone on the edge resource >= milestone; continues iff the "
    "milestone is not reached); S4 rungs are scanned highest first and entries best first, leaving at the first hit; "
    "S5 the cutoff comparison is invariant under (mode, metric) -> (other mode, -metric); S6 a promoted trial is told to run "
    "exactly to the next rung level (max_resource_attr := milestone) and the running record keeps resume_from < milestone; "
    "S7 promotion out of a rung requires its level to be below the effective maximum; PASHA's cap only grows; S8 a new "
    "configuration is requested exactly when no trial is promotable. S2 also: the cost-aware scan takes an entry only while the running cost is within the threshold, if it is promotable, and if the rung has more than one entry. NOT decided: quantile and cost-threshold values; "
    "PASHA's ranking-stability criterion.")

FLOOR = {"S1": 3, "S2": 5, "S3": 3, "S4": 3, "S5": 1, "S6": 4, "S7": 4, "S8": 2}


def s1(ctx, rep):
    P = ctx.P
    f = P.method("PromotionRungSystem", "on_task_schedule")
    cfg = cfg_of(f)
    mk = ctx.nodes(f, ctx.sel_call(selfcall="_mark_as_promoted"), "must", 0)
    # nodes that put the key "trial_id" into the returned dict
    rn = set()
    keyed = {}          # node id -> keys of the answer that the node sets
    for n in cfg.nodes:
        if n.kind != "stmt":
            continue
        ks = set()
        if isinstance(n.ast, (ast.Assign, ast.Return)):
            v = n.ast.value
            d = dict_items(v) if v is not None else None
            if d:
                ks |= set(d)
            if isinstance(n.ast, ast.Assign) and isinstance(n.ast.targets[0], ast.Subscript) and isinstance(n.ast.targets[0].slice, ast.Constant):
                ks.add(n.ast.targets[0].slice.value)
        for x in cfg.node_walk(n.id):
            if isinstance(x, ast.Call) and fn_name(x) == "update":
                ks |= {k_.arg for k_ in x.keywords if k_.arg}
                for a_ in x.args:
                    d = dict_items(a_)
                    if d:
                        ks |= set(d)
        ks &= {"trial_id", "resume_from", "milestone"}
        if ks:
            keyed[n.id] = ks
            if "trial_id" in ks:
                rn.add(n.id)
    # the caller reads the ABSENCE of these keys as "nothing promoted, start a new trial at the bracket's first milestone"
    from .common import dom_guard
    loose = [nid for nid in keyed if not any(a[0] == "is" and a[2] == "None" and a[3] is False for a in dom_guard(ctx, f, nid))]
    rep.put(not loose, "S1", "agreement", "PromotionRungSystem.on_task_schedule: trial_id / resume_from / milestone are returned only together with a promoted trial", f,
            cfg.nodes[loose[0]].ast if loose else None, "", f"{sorted(keyed[loose[0]]) if loose else ''} is set although nothing is promoted: the caller takes a "
            "missing 'milestone' as 'use the first milestone of the trial's bracket', so a new trial in a higher bracket is told to run to the "
            "lowest rung level instead of its own")
    if rn and not mk:
        rep.bad("S1", "must_precede", "PromotionRungSystem.on_task_schedule: _mark_as_promoted(rung, pos) ≺ returning the promotion", f, None,
                "on_task_schedule returns a promotion and never calls _mark_as_promoted: the trial is promoted again from the same rung")
        return
    if not rn or not mk:
        raise AnchorError("PromotionRungSystem.on_task_schedule: marking / promotion dict not found")
    viol = [r for r in rn if cfg.path(cfg.entry, r, deleted=mk) is not None]
    call = ctx.calls_in(f, selfcall="_mark_as_promoted")[0][1]
    # the rung passed is the loop variable of the scan in which the hit was found; the position comes from that hit
    loopv = [U(n.target) for n in walk_shallow(f.node) if isinstance(n, ast.For) and U(n.iter) == "self._rungs"]
    hit = var_from_call(f, "_find_promotable_trial")
    a0, a1 = (U(argn(call, 0)), U(argn(call, 1))) if len(call.args) >= 2 else ("?", "?")
    rd = [U(d) for d in local_defs(f, a0) if not isinstance(d, tuple)]
    pd = [d for d in local_defs(f, a1)]
    args_ok = bool(loopv) and (loopv[0] in rd or loopv[0] == a0) and any((isinstance(d, tuple) and U(d[1]) == hit) or (not isinstance(d, tuple) and hit and hit in U(d)) for d in pd)
    rep.put(not viol and args_ok, "S1", "must_precede", "PromotionRungSystem.on_task_schedule: _mark_as_promoted(rung, pos) ≺ returning the promotion",
            f, call, "", "a trial can be returned for promotion without being marked as promoted: it is promoted again from the same rung")
    m = P.method("PromotionRungSystem", "_mark_as_promoted")
    cm = cfg_of(m)
    ev = var_from_call(m, "pop") or "entry"
    asserts = [n for n in cm.nodes if n.kind == "stmt" and isinstance(n.ast, ast.Assert) and
               ("truth", f"{ev}.was_promoted", False) in atoms_of(n.ast.test, True)]
    sets = [n for n in cm.nodes if n.kind == "stmt" and isinstance(n.ast, ast.Assign) and U(n.ast.targets[0]).endswith(".was_promoted")
            and isinstance(n.ast.value, ast.Constant) and n.ast.value.value is True]
    readd = [n for n in cm.nodes if any(isinstance(x, ast.Call) and fn_name(x) == "add" and U(x.func.value) == "rung" for x in cm.node_walk(n.id))]
    pops = [n for n in cm.nodes if any(isinstance(x, ast.Call) and fn_name(x) == "pop" and U(x.func.value) == "rung" for x in cm.node_walk(n.id))]
    ok = bool(asserts and sets and readd and pops) and cm.path(cm.entry, sets[0].id, deleted={asserts[0].id}) is None and \
        cm.path(cm.entry, cm.exit, deleted={sets[0].id}, skip_labels=("exc",)) is None and \
        cm.path(cm.entry, cm.exit, deleted={readd[0].id}, skip_labels=("exc",)) is None and \
        cm.path(cm.entry, readd[0].id, deleted={sets[0].id}) is None
    rep.put(ok, "S1", "must_precede", "PromotionRungSystem._mark_as_promoted: assert not promoted ≺ set flag ≺ re-insert", m, None, "")
    # the promotion dict carries resume level and next level from the scan
    ok = False
    for n in cfg.nodes:
        if n.id in rn:
            d = dict_items(n.ast.value) if isinstance(n.ast, (ast.Assign, ast.Return)) and n.ast.value is not None else None
            if not d or d.get("resume_from") is None or d.get("milestone") is None:
                continue
            # resume_from: the level of the rung where the hit was found; milestone: the level of the rung scanned before it
            lv = vars_assigned_from(f, lambda v: bool(loopv) and U(v) == f"{loopv[0]}.level")
            rf, ms_ = U(d.get("resume_from")), U(d.get("milestone"))
            ok = bool(lv) and (rf == lv[0] or lv[0] in [U(x) for x in local_defs(f, rf) if not isinstance(x, tuple)]) and \
                lv[0] in [U(x) for x in local_defs(f, ms_) if not isinstance(x, tuple)] and \
                "self._max_t" in [U(x) for x in local_defs(f, ms_) if not isinstance(x, tuple)]
    rep.put(ok, "S1", "agreement", "PromotionRungSystem.on_task_schedule: returns {trial_id, resume_from: rung level, milestone: next level}", f, None, "")


def s2(ctx, rep):
    P = ctx.P
    base = P.cls("PromotionRungSystem")
    impls = [c.methods["_find_promotable_trial"] for c in P.all_subclasses(base, strict=False) if "_find_promotable_trial" in c.methods]
    if len(impls) < 2:
        raise AnchorError("expected base and cost-aware _find_promotable_trial")
    for f in impls:
        cfg = cfg_of(f)
        # every assignment of a (trial_id, pos) result is guarded by self._is_promotable_trial(entry, ...)
        # the places where an entry of the rung is chosen: inside the scan over rung.data, a pair built from the loop's variables
        # (the entry or its trial id, and the position) is stored or returned
        scans = [l for l in cfg.nodes if l.kind == "for" and "rung.data" in U(l.ast.iter)]
        if not scans:
            raise AnchorError(f"{f.short}: scan over rung.data not found")
        lvars = {y.id for l in scans for y in ast.walk(l.ast.target) if isinstance(y, ast.Name)}
        inside = {id(s) for l in scans for s in stmts_in(l.ast.body)}
        res = [n for n in cfg.nodes if n.kind == "stmt" and isinstance(n.ast, (ast.Assign, ast.Return)) and isinstance(n.ast.value, ast.Tuple)
               and len(n.ast.value.elts) == 2 and id(n.ast) in inside
               and all(any(isinstance(y, ast.Name) and y.id in lvars for y in ast.walk(e)) for e in n.ast.value.elts)]
        if not res:
            raise AnchorError(f"{f.short}: no place inside the scan where an (entry / trial id, position) pair is stored or returned")
        for n in res:
            ent = sorted({y.id for e in n.ast.value.elts for y in ast.walk(e) if isinstance(y, ast.Name) and y.id in lvars
                          and any(isinstance(p_, ast.Attribute) and p_.value is y for p_ in ast.walk(e))} or
                         {y.id for e in n.ast.value.elts for y in ast.walk(e) if isinstance(y, ast.Name) and y.id in lvars})
            ent = [e_ for e_ in ent if any(a[0] == "truth" and a[1].startswith("self._is_promotable_trial(" + e_) for a in ctx.facts(f).at(n.id))][:1] or ent[:1]
            ent = ent[0]
            ok = ctx.has_fact(f, n.id, lambda a: a[0] == "truth" and a[2] is True and a[1].startswith("self._is_promotable_trial(" + ent))
            rep.put(ok, "S2", "guarded_by", f"{f.short}: an entry is chosen only if _is_promotable_trial(entry) holds", f, n.ast, "",
                    "an entry can be chosen for promotion without passing _is_promotable_trial: an already promoted trial is "
                    "promoted a second time")
    b = base.methods["_is_promotable_trial"]
    rv = [U(r.value) for r in returns_of(b)]
    rep.put(rv == ["not entry.was_promoted"], "S2", "agreement", "PromotionRungSystem._is_promotable_trial == not entry.was_promoted", b, None, str(rv))
    for c in P.all_subclasses(base):
        m = c.methods.get("_is_promotable_trial")
        if m is None:
            continue
        # the result of super()._is_promotable_trial must be a necessary condition of the return value
        sup = [x for x in walk_shallow(m.node) if isinstance(x, ast.Call) and fn_name(x) == "_is_promotable_trial"
               and isinstance(x.func.value, ast.Call) and fn_name(x.func.value) == "super"]
        ok = len(sup) == 1
        if ok:
            r = returns_of(m)
            ok = len(r) == 1
            v = r[0].value
            var = None
            for name in {x.id for x in ast.walk(m.node) if isinstance(x, ast.Name)}:
                if any(d is sup[0] for d in local_defs(m, name) if not isinstance(d, tuple)):
                    var = name
            if isinstance(v, ast.BoolOp) and isinstance(v.op, ast.And):
                ok = any(x is sup[0] or (var and U(x) == var) for x in v.values)
            elif isinstance(v, ast.Call) and fn_name(v) == "task_continues" and v.args and (argn(v, 0) is sup[0] or (var and U(argn(v, 0)) == var)):
                ok = True   # RUSHDecider.task_continues returns False whenever its first argument is False (C03-S8)
            else:
                ok = False
        rep.put(ok, "S2", "agreement", f"{c.name}._is_promotable_trial conjoins the base condition", m, None, "",
                f"{c.name}._is_promotable_trial does not require super()._is_promotable_trial: an already promoted entry can be accepted")
    # cost-aware: prefix sum over every entry in rank order
    f = P.method("CostPromotionRungSystem", "_find_promotable_trial")
    cfg = cfg_of(f)
    heads = [n for n in cfg.nodes if n.kind == "for" and "rung.data" in U(n.ast.iter)]
    if len(heads) != 1:
        raise AnchorError("CostPromotionRungSystem._find_promotable_trial: loop over rung.data not found")
    h = heads[0]
    acc = [n.id for n in cfg.nodes if n.kind == "stmt" and "cost_val" in U(n.ast.value if hasattr(n.ast, "value") and n.ast.value is not None else n.ast) and (
        (isinstance(n.ast, ast.AugAssign) and isinstance(n.ast.op, ast.Add)) or
        (isinstance(n.ast, ast.Assign) and isinstance(n.ast.value, ast.BinOp) and isinstance(n.ast.value.op, ast.Add)
         and U(n.ast.targets[0]) in (U(n.ast.value.left), U(n.ast.value.right))))]
    ok = len(acc) == 1
    if ok:
        starts = [s for s, l in cfg.succ[h.id] if l == "iter"]
        body = cfg.reachable(starts, deleted={h.id})
        # every path from the loop head into any other body node passes the accumulation
        ok = all(cfg.path(starts, b, deleted={acc[0], h.id}) is None for b in body if b != acc[0])
    rep.put(ok, "S2", "must_precede", "CostPromotionRungSystem._find_promotable_trial: every entry's cost is accumulated, in rank order, before any test",
            f, cfg.nodes[acc[0]].ast if acc else None, "C(r,k) sums over all entries ranked <= k",
            "an entry can be skipped (or tested) before its cost is added to the running sum: promoted entries no longer count towards "
            "C(r, k), so a trial ranked behind expensive promoted ones is resumed although C(r, rank) > q * C(r, N)")
    thn = vars_assigned_from(f, lambda v: "prom_quant" in U(v) and "sum(" in U(v))
    accn = [U(cfg.nodes[a_].ast.target if isinstance(cfg.nodes[a_].ast, ast.AugAssign) else cfg.nodes[a_].ast.targets[0]) for a_ in acc]
    thr = [d for d in local_defs(f, thn[0]) if not isinstance(d, tuple)] if thn else []
    ok = len(thr) == 1 and "sum(" in U(thr[0]) and "rung.data" in U(thr[0]) and "prom_quant" in U(thr[0]) and "if" not in U(thr[0])
    rep.put(ok, "S2", "agreement", "CostPromotionRungSystem: threshold = q * total cost of all entries of the rung", f, thr[0] if thr else None, "")
    brk = [n for n in cfg.nodes if n.kind == "stmt" and isinstance(n.ast, ast.Break)]
    ok = bool(thn) and bool(accn) and any(("lt", thn[0], accn[0]) in ctx.facts(f).at(n.id) for n in brk)
    rep.put(ok, "S2", "guarded_by", "CostPromotionRungSystem: the scan ends once the running cost exceeds the threshold", f, None, "")
    # ... and an entry is taken only while the running cost is within the threshold, if it is promotable, and if the rung has more
    # than one entry (the same minimum the metric-based rule needs for a cutoff)
    from .common import dom_guard
    takes = [n for n in cfg.nodes if n.kind == "stmt" and isinstance(n.ast, ast.Assign) and isinstance(n.ast.value, ast.Tuple)
             and any("trial_id" in U(e) for e in n.ast.value.elts)]
    ok = len(takes) == 1 and bool(thn) and bool(accn)
    miss = []
    if ok:
        at = set(dom_guard(ctx, f, takes[0].id)) | set(ctx.facts(f).at(takes[0].id))
        if not (("le", accn[0], thn[0]) in at or ("lt", thn[0], accn[0], False) in at):
            miss.append("running cost <= threshold")
        if not any(a[0] == "truth" and "_is_promotable_trial" in a[1] and a[2] is True for a in at):
            miss.append("_is_promotable_trial(entry)")
        if not any(a[0] == "lt" and a[1] == "1" and a[2].startswith("len(") for a in at) and not any(a[0] == "le" and a[1] == "2" and a[2].startswith("len(") for a in at):
            miss.append("len(rung) > 1")
    rep.put(ok and not miss, "S2", "guarded_by", "CostPromotionRungSystem: an entry is taken | cost within the threshold, promotable, more than one entry", f,
            takes[0].ast if takes else None, "", f"not taken exactly under `{' and '.join(miss)}`: a trial whose cumulative cost share exceeds the promotion "
            "quantile (or an already promoted one, or the only entry of a rung) is resumed")


def s3(ctx, rep):
    P = ctx.P
    f = P.method("PromotionRungSystem", "on_task_report")
    cfg = cfg_of(f)
    rv = vars_assigned_from(f, lambda v: isinstance(v, ast.Subscript) and "_resource_attr" in U(v.slice))
    from ..engine import field_key, canon_text
    # the milestone recorded for this run: field `milestone` of the running record (a dict entry or a record field, read directly or
    # through a local holding the record)
    is_ms = lambda v: field_key(v) is not None and field_key(v)[1] == "milestone" and "_running" in canon_text(f, field_key(v)[0])
    mv = vars_assigned_from(f, is_ms)
    from .common import unpacked_field
    unp = {}
    for nm_ in sorted({x.id for x in ast.walk(f.node) if isinstance(x, ast.Name)}):
        uf = unpacked_field(ctx, f, nm_)
        if uf is not None and uf[1] == "milestone" and "_running" in canon_text(f, uf[0]):
            unp[nm_] = uf
    mv = mv + [n_ for n_ in unp if n_ not in mv]
    if len(rv) != 1 or len(mv) != 1:
        raise AnchorError("PromotionRungSystem.on_task_report: resource / milestone variables not identified")
    rv, mv = rv[0], mv[0]
    asserts = [n for n in cfg.nodes if n.kind == "stmt" and isinstance(n.ast, ast.Assert) and
               any(a[0] == "eq" and a[3] is True and {a[1], a[2]} == {rv, mv} for a in atoms_of(n.ast.test, True))]
    ok = len(asserts) == 1 and ("le", mv, rv) in ctx.facts(f).at(asserts[0].id)
    rep.put(ok, "S3", "guarded_by", "PromotionRungSystem.on_task_report: assert resource == milestone on the edge resource >= milestone", f,
            asserts[0].ast if asserts else None, "")
    d0 = None
    for r in returns_of(f):
        d0 = dict_items(r.value) or d0
    mrn = U(d0["milestone_reached"]) if d0 and "milestone_reached" in d0 else "?"
    # the places that answer 'milestone reached': the flag set to True, or a result returned with the constant True
    mr = [n for n in cfg.nodes if n.kind == "stmt" and isinstance(n.ast, ast.Assign) and U(n.ast.targets[0]) == mrn
          and isinstance(n.ast.value, ast.Constant) and n.ast.value.value is True]
    mr += [n for n in cfg.nodes if n.kind == "stmt" and isinstance(n.ast, ast.Return) and isinstance((dict_items(n.ast.value) or {}).get("milestone_reached"), ast.Constant)
           and (dict_items(n.ast.value) or {})["milestone_reached"].value is True]
    ok = len(mr) == 1 and bool(asserts) and cfg.path(cfg.entry, mr[0].id, deleted={asserts[0].id}) is None
    rep.put(ok, "S3", "must_precede", "PromotionRungSystem.on_task_report: milestone_reached only after the exact-level assert", f, None, "")
    d = None
    for r in returns_of(f):
        d = dict_items(r.value) or d
    ok = d is not None and U(d.get("task_continues")) == f"not {mrn}"
    if not ok:
        # every returned result carries the two as opposite constants
        ds_ = [dict_items(r.value) or {} for r in returns_of(f)]
        ok = bool(ds_) and all(isinstance(x.get("task_continues"), ast.Constant) and isinstance(x.get("milestone_reached"), ast.Constant)
                               and isinstance(x["task_continues"].value, bool) and x["task_continues"].value is (not x["milestone_reached"].value) for x in ds_)
    rep.put(ok, "S3", "agreement", "PromotionRungSystem.on_task_report: task_continues == not milestone_reached", f, None, "",
            "a trial does not pause exactly when it reaches its milestone")
    ms = [d_ for d_ in local_defs(f, mv) if not isinstance(d_, tuple)]
    ok = (len(ms) == 1 and is_ms(ms[0]) and canon_text(f, field_key(ms[0])[0]) == "self._running[trial_id]") or \
        (mv in unp and canon_text(f, unp[mv][0]) == "self._running[trial_id]")
    rep.put(ok, "S3", "agreement", "PromotionRungSystem.on_task_report: the milestone is the one recorded for this run of the trial", f, None, "")


def s4(ctx, rep):
    P = ctx.P
    f = P.method("PromotionRungSystem", "on_task_schedule")
    loops = [n for n in walk_shallow(f.node) if isinstance(n, ast.For)]
    ok = len(loops) == 1 and U(loops[0].iter) == "self._rungs"
    rep.put(ok, "S4", "agreement", "PromotionRungSystem.on_task_schedule scans self._rungs (highest level first)", f, loops[0] if loops else None, "")
    cfg = cfg_of(f)
    head = [n.id for n in cfg.nodes if n.kind == "for"][0]
    hv = var_from_call(f, "_find_promotable_trial")
    hit = [n.id for n in cfg.nodes if n.kind == "stmt" and isinstance(n.ast, ast.Assign) and hv == U(n.ast.value)
           and isinstance(n.ast.targets[0], ast.Tuple)]
    ok = bool(hit) and cfg.path([s for s, l in cfg.succ[hit[0]]], head, skip_labels=("exc",)) is None
    rep.put(ok, "S4", "must_follow", "PromotionRungSystem.on_task_schedule: the scan stops at the first rung with a promotable trial", f, None, "")
    g = P.method("PromotionRungSystem", "_find_promotable_trial")
    cg = cfg_of(g)
    lp = [n for n in cg.nodes if n.kind == "for"]
    ok = len(lp) == 1 and "enumerate(rung.data)" == U(lp[0].ast.iter)
    res = [n.id for n in cg.nodes if n.kind == "stmt" and isinstance(n.ast, (ast.Assign, ast.Return)) and isinstance(n.ast.value, ast.Tuple)
           and len(n.ast.value.elts) == 2 and "trial_id" in U(n.ast.value.elts[0])]
    ok = ok and bool(res) and all(cg.path([s for s, l in cg.succ[r_]], lp[0].id, skip_labels=("exc",)) is None for r_ in res)
    rep.put(ok, "S4", "must_follow", "PromotionRungSystem._find_promotable_trial: first promotable entry in rank order (best first) wins", g, None, "")
    r = P.method("Rung", "__init__")
    ok = any(isinstance(x, ast.Call) and fn_name(x) == "SortedList" for x in walk_shallow(r.node))
    rep.put(ok, "S4", "agreement", "Rung.data is kept sorted (SortedList)", r, None, "")


def s5(ctx, rep, clause="S5"):
    P = ctx.P
    f = P.method("PromotionRungSystem", "_find_promotable_trial")
    from ..engine import deref
    cut = var_from_call(f, "quantile")
    # the comparison  sign * (metric - cutoff) < 0 : the sign factor written out or held in a local, either side of the product
    k, cmpn, c, other = None, [], None, None
    for x in walk_shallow(f.node):
        if not (isinstance(x, ast.Compare) and len(x.ops) == 1 and (cut or "?") in U(x)):
            continue
        c_ = parity.oriented(x, "0") or x
        l = c_.left
        if not (isinstance(l, ast.BinOp) and isinstance(l.op, ast.Mult) and U(c_.comparators[0]) == "0"):
            continue
        for sg, ot in ((l.left, l.right), (l.right, l.left)):
            k_ = parity.is_sign(deref(f, sg))
            if k_ is not None:
                cmpn.append(x)
                k, c, other = k_, c_, ot
    ok = k is not None and len(cmpn) == 1
    why = "no comparison of a mode sign times (metric - cutoff) with 0 found"
    if ok:
        mvl = vars_assigned_from(f, lambda v: isinstance(v, ast.Attribute) and v.attr == "metric_val")
        ok = isinstance(other, ast.BinOp) and isinstance(other.op, ast.Sub) and U(other.right) == cut and \
            (U(other.left) in mvl or (isinstance(deref(f, other.left), ast.Attribute) and deref(f, other.left).attr == "metric_val"))
        # direction: min (k) : reject iff k*(m - c) < 0 ; must be "m > c" => k = -1 ; strictness: equality is not rejected
        ok = ok and isinstance(c.ops[0], ast.Lt) and k == -1
        why = f"`{U(c)}` with sign={k} under min"
    rep.put(ok, clause, "parity", "PromotionRungSystem._find_promotable_trial: sign * (metric - cutoff) < 0 rejects, sign = -1 for min / +1 for max",
            f, cmpn[0] if cmpn else None, "NORM comparison: invariant under (mode, metric) -> (other mode, -metric); equality promotes",
            why + ": the best paused trial is rejected/accepted in the wrong direction for one of the modes")


def s6(ctx, rep):
    P = ctx.P
    for meth in ("_promote_trial", "_on_config_suggest"):
        f = P.method("HyperbandScheduler", meth)
        cfg = cfg_of(f)
        st = [n for n in cfg.nodes if n.kind == "stmt" and isinstance(n.ast, ast.Assign) and isinstance(n.ast.targets[0], ast.Subscript)
              and U(n.ast.targets[0].slice) == "self.max_resource_attr"]
        ok = len(st) >= 1
        for n in st:
            at = ctx.facts(f).at(n.id)
            ok = ok and any(a[0] == "truth" and "does_pause_resume" in a[1] and a[2] is True for a in at) and \
                any(a[0] == "is" and a[1] == "self.max_resource_attr" and a[3] is False for a in at)
            v = n.ast.value
            ds = [U(d) for d in local_defs(f, U(v))] if isinstance(v, ast.Name) else [U(v)]
            ok = ok and any("milestone" in d for d in ds)
        rep.put(ok, "S6", "taint", f"HyperbandScheduler.{meth}: config[max_resource_attr] := the milestone from the rung system", f,
                st[0].ast if st else None, "", "a promoted/new trial is not told to run exactly to its next rung level")
    g = P.method("PromotionRungSystem", "on_task_add")
    cg = cfg_of(g)
    st = [n for n in cg.nodes if n.kind == "stmt" and isinstance(n.ast, ast.Assign) and U(n.ast.targets[0]) == "self._running[trial_id]"]
    ok = len(st) == 1
    if ok:
        d = dict_items(st[0].ast.value)
        ok = d is not None and "milestone" in d and "resume_from" in d
        msn, rfn = (U(d["milestone"]), U(d["resume_from"])) if ok else ("?", "?")
        asserts = [n for n in cg.nodes if n.kind == "stmt" and isinstance(n.ast, ast.Assert) and ("lt", rfn, msn) in atoms_of(n.ast.test, True)]
        ok = ok and len(asserts) == 1 and any("kwargs['milestone']" in U(x) for x in local_defs(g, msn) if not isinstance(x, tuple)) and \
            any("kwargs['resume_from']" in U(x) for x in local_defs(g, rfn) if not isinstance(x, tuple))
    rep.put(ok, "S6", "agreement", "PromotionRungSystem.on_task_add records {milestone, resume_from} with resume_from < milestone", g, None, "")
    h = P.method("HyperbandScheduler", "_promote_trial")
    tidv = var_from_call(h, "on_task_schedule", 0)
    ok = any(isinstance(x, ast.Call) and fn_name(x) == "on_task_add" and "terminator" in U(x.func.value) and U(argn(x, 0)) == tidv
             for x in walk_shallow(h.node))
    rep.put(ok, "S6", "must_reach", "HyperbandScheduler._promote_trial registers the resumed run with the rung system", h, None, "")


def s7(ctx, rep):
    P = ctx.P
    f = P.method("PromotionRungSystem", "on_task_schedule")
    calls = ctx.calls_in(f, selfcall="_find_promotable_trial")
    ok = len(calls) == 1 and ctx.has_fact(f, calls[0][0], lambda a: a[0] == "lt" and a[2] == "self._effective_max_t()")
    lv = [a for a in ctx.facts(f).at(calls[0][0]) if a[0] == "lt" and a[2] == "self._effective_max_t()"] if calls else []
    if ok:
        ds = [U(d) for d in local_defs(f, lv[0][1]) if not isinstance(d, tuple)]
        lvn = [U(n.target) for n in walk_shallow(f.node) if isinstance(n, ast.For) and U(n.iter) == "self._rungs"]
        ok = bool(lvn) and ds == [f"{lvn[0]}.level"]
    rep.put(ok, "S7", "guarded_by", "PromotionRungSystem.on_task_schedule: promotion from a rung only if its level < effective max_t", f,
            calls[0][1] if calls else None, "", "a trial can be promoted beyond the (current) maximum resource")
    b = P.method("PromotionRungSystem", "_effective_max_t")
    rep.put([U(r.value) for r in returns_of(b)] == ["self._max_t"], "S7", "agreement", "PromotionRungSystem._effective_max_t == max_t", b, None, "")
    pa = P.cls("PASHARungSystem")
    e = pa.methods["_effective_max_t"]
    rep.put([U(r.value) for r in returns_of(e)] == ["self.current_max_t"], "S7", "agreement", "PASHARungSystem._effective_max_t == current_max_t", e, None, "")
    ws = [(g, n, k) for g, n, k in ctx.writers("current_rung_idx") if g.cls is pa]
    bad = [(g, n) for g, n, k in ws if not (g.name == "__init__" or (isinstance(n, ast.AugAssign) and isinstance(n.op, ast.Add)
                                                                      and isinstance(n.value, ast.Constant) and n.value.value > 0))]
    rep.put(bool(ws) and not bad, "S7", "monotone_write", "PASHARungSystem.current_rung_idx is only ever incremented", pa, None,
            f"{len(ws)} write(s)", "PASHA's rung index can decrease: the resource cap shrinks")
    ws = [(g, n, k) for g, n, k in ctx.writers("current_max_t") if g.cls is pa]
    srcs = {U(n.value) for g, n, k in ws if isinstance(n, ast.Assign)}
    ok = bool(ws) and all(s in ("self.rung_levels[self.current_rung_idx - 1]", "self._max_t", "rung_levels[self.current_rung_idx - 1]") for s in srcs)
    rep.put(ok, "S7", "monotone_write", "PASHARungSystem.current_max_t is assigned only from rung_levels[idx-1] or max_t", pa, None, str(sorted(srcs)))
    # the increment is guarded so that the index stays within the rung list
    f2 = pa.methods["on_task_report"]
    inc = [n for n in cfg_of(f2).nodes if n.kind == "stmt" and isinstance(n.ast, ast.AugAssign) and "current_rung_idx" in U(n.ast.target)]
    ok = bool(inc) and ctx.has_fact(f2, inc[0].id, lambda a: a[0] == "lt" and a[1] == "self.current_rung_idx" and a[2] == "len(self._rungs)")
    rep.put(ok, "S7", "guarded_by", "PASHARungSystem.on_task_report: index incremented only while below the number of rungs", f2, None, "")


def s8(ctx, rep):
    P = ctx.P
    f = P.method("FIFOScheduler", "_suggest")
    sites = ctx.calls_in(f, method="get_config", recv="BaseSearcher")
    if not sites:
        raise AnchorError("FIFOScheduler._suggest: searcher.get_config not found")
    ptv = var_from_call(f, "_promote_trial", 0)
    for nid, c in sites:
        ok = ctx.has_fact(f, nid, lambda a: a[0] == "is" and a[1] == ptv and a[2] == "None" and a[3] is True)
        rep.put(ok, "S8", "guarded_by", "FIFOScheduler._suggest: a new configuration is requested only when no trial is promoted", f, c, "")
    cfg = cfg_of(f)
    pr = ctx.nodes(f, ctx.sel_call(selfcall="_promote_trial"), "must", 0)
    ok = bool(pr) and all(cfg.path(cfg.entry, nid, deleted=pr) is None for nid, c in sites)
    rep.put(ok, "S8", "must_precede", "FIFOScheduler._suggest: _promote_trial is consulted before the searcher", f, None, "")
    # and a resume suggestion is produced exactly on the other edge
    rs = [n.id for n in cfg.nodes if any(isinstance(x, ast.Call) and fn_name(x) == "resume_suggestion" for x in cfg.node_walk(n.id))]
    ok = bool(rs) and all(ctx.has_fact(f, n, lambda a: a[0] == "is" and a[1] == ptv and a[3] is False) for n in rs)
    rep.put(ok, "S8", "guarded_by", "FIFOScheduler._suggest: resume suggestion exactly when a trial is promoted", f, None, "")


def s2b(ctx, rep):
    """guard table of the promotion decision (found thin by the generic mutation audit)"""
    from .common import require_guard, call_nodes
    P = ctx.P
    f = P.method("PromotionRungSystem", "_find_promotable_trial")
    cfg = cfg_of(f)
    cut = var_from_call(f, "quantile")
    if cut is None:
        raise AnchorError("_find_promotable_trial: cutoff = rung.quantile() not found")
    # the places that make the result None, whichever way the function is written (a result variable, or direct returns)
    from .common import result_sites
    heads = [l.id for l in cfg.nodes if l.kind == "for"]
    none_sites = [s_ for s_ in result_sites(ctx, f) if isinstance(s_[1], ast.Constant) and s_[1].value is None]
    no_cut = lambda a: a[0] == "is" and a[1] == cut and a[2] == "None" and a[3] is True
    wrong_side = lambda a: a[0] == "lt" and a[2] == "0" and cut in a[1]
    found = lambda a: (a[0] == "is" and a[2] == "None" and a[3] is False and a[1] != cut) or \
        (a[0] == "truth" and a[2] is True and a[1].startswith("self._is_promotable_trial("))

    def scanned(n):         # the scan loop lies on a path with the place: before it (default of the result) or after it
        return any(cfg.path([n.id], h, skip_labels=("exc",)) is not None or cfg.path([h], n.id, skip_labels=("exc",)) is not None for h in heads)
    early = [s_ for s_ in none_sites if not s_[3] and not any(wrong_side(a) for a in s_[2]) and not scanned(s_[0])]
    ok = bool(early) and all(any(no_cut(a) for a in s_[2]) for s_ in early) and any(any(no_cut(a) for a in s_[2]) for s_ in none_sites)
    rep.put(ok, "S2", "guarded_by", "PromotionRungSystem._find_promotable_trial: 'nothing to promote' without a scan | no cutoff (fewer than two entries)", f,
            early[0][0].ast if early else None, f"{cut} is None",
            "a rung with a cutoff is never scanned (nothing is ever promoted), or a rung without one is compared with None")
    # a candidate is given up only when it is on the wrong side of the cutoff: every None made inside the scan, or after it
    # under a condition on the candidate
    rej = [s_ for s_ in none_sites if s_ not in early and (s_[3] or any(wrong_side(a) or found(a) for a in s_[2]))]
    ok = bool(rej) and all(any(wrong_side(a) for a in s_[2]) and any(found(a) for a in s_[2]) for s_ in rej)
    rep.put(ok, "S2", "guarded_by", "PromotionRungSystem._find_promotable_trial: the best unpromoted entry is rejected | it is on the wrong side of the cutoff", f,
            rej[0][0].ast if rej else None, "sign * (metric - cutoff) < 0, and a candidate was found",
            "the best paused trial is rejected when it should be promoted (or promoted although it is worse than the quantile)")
    g = P.method("PromotionRungSystem", "on_task_schedule")
    nodes = [n for n, c in call_nodes(ctx, g, lambda c: fn_name(c) == "_mark_as_promoted")]
    require_guard(ctx, rep, "S1", g, "PromotionRungSystem.on_task_schedule: a trial is marked as promoted | one was found", nodes,
                  [("trial_id is not None", lambda a: a[0] == "is" and a[3] is False and a[2] == "None")],
                  "marking without a candidate (or a candidate is returned without being marked: it can be promoted twice)")
    cg = cfg_of(g)
    # the statements that leave the scan early: a break, or a return from inside the loop
    in_loop = {id(s) for l in cg.nodes if l.kind == "for" for s in stmts_in(l.ast.body)}
    brk = [n.id for n in cg.nodes if n.kind == "stmt" and (isinstance(n.ast, ast.Break) or (isinstance(n.ast, ast.Return) and id(n.ast) in in_loop))]
    require_guard(ctx, rep, "S4", g, "PromotionRungSystem.on_task_schedule: the scan over rungs ends | a promotable trial was found", brk,
                  [("result is not None", lambda a: a[0] == "is" and a[3] is False and a[2] == "None")],
                  "the scan stops at the first rung although nothing can be promoted there (lower rungs are never looked at)")


def s2c(ctx, rep):
    """the cost the cost-aware rung system ranks by is the ACCUMULATED cost of all jobs of the trial: the key under which
    on_trial_result writes `cost + offset of earlier jobs` into the result is the key the rung system is told to read"""
    P = ctx.P
    f = P.method("HyperbandScheduler", "on_trial_result")
    st = [x for x in walk_shallow(f.node) if isinstance(x, ast.Assign) and isinstance(x.targets[0], ast.Subscript)
          and any(isinstance(y, ast.Attribute) and y.attr == "_cost_offset" for y in ast.walk(x.value))
          or (isinstance(x, ast.Assign) and isinstance(x.targets[0], ast.Subscript) and U(x.targets[0].value) == "result"
              and any(isinstance(y, ast.Name) and y.id in vars_assigned_from(f, lambda v: any(isinstance(z, ast.Attribute) and z.attr == "_cost_offset"
                                                                                              for z in ast.walk(v))) for y in ast.walk(x.value)))]
    st = [x for x in st if U(x.targets[0].value) == "result"]
    if len(st) != 1:
        raise AnchorError("HyperbandScheduler.on_trial_result: store of the accumulated cost into the result not found")
    key = U(st[0].targets[0].slice)
    init = P.method("HyperbandScheduler", "__init__")
    mk = [x for x in walk_shallow(init.node) if isinstance(x, ast.Call) and fn_name(x) == "HyperbandBracketManager"]
    ok = len(mk) == 1 and kwarg(mk[0], "cost_attr") is not None and U(kwarg(mk[0], "cost_attr")) == key
    rep.put(ok, "S2", "agreement", "HyperbandScheduler: the rung systems read the cost under the key the accumulated cost is written to", init,
            kwarg(mk[0], "cost_attr") if mk else None, f"result[{key}] = cost + offset; HyperbandBracketManager(cost_attr={key})",
            f"the rung systems are given cost_attr=`{U(kwarg(mk[0], 'cost_attr')) if mk and kwarg(mk[0], 'cost_attr') is not None else '?'}` but the "
            f"accumulated cost is written to result[{key}]: rungs record the cost of the current job only, so a resumed trial looks cheaper than "
            "it was and is promoted although it is not eligible")
    # the accumulated cost survives a pause: entries of the offset table are written by the constructor and by on_trial_result only
    # (the tuner calls on_trial_remove after every pause - a clean-up there would wipe the cost of the jobs run so far)
    hs = P.cls("HyperbandScheduler")
    wr = []
    for k_ in ctx.family(hs):
        for m_ in k_.methods.values():
            for x in walk_shallow(m_.node):
                tg = []
                if isinstance(x, (ast.Assign, ast.AugAssign, ast.Delete)):
                    tg = x.targets if not isinstance(x, ast.AugAssign) else [x.target]
                hit = any((isinstance(t, ast.Subscript) and U(t.value) == "self._cost_offset") or U(t) == "self._cost_offset" for t in tg) or (
                    isinstance(x, ast.Call) and isinstance(x.func, ast.Attribute) and U(x.func.value) == "self._cost_offset"
                    and x.func.attr in ("pop", "clear", "update", "popitem", "setdefault", "__delitem__", "__setitem__"))
                if hit:
                    wr.append((m_, x))
    foreign = [(m_, x) for m_, x in wr if m_.name not in ("__init__", "on_trial_result")]
    rep.put(bool(wr) and not foreign, "S2", "who_may_write", "HyperbandScheduler._cost_offset is written by the constructor and on_trial_result only", hs,
            foreign[0][1] if foreign else None, f"{len(wr)} write(s)",
            f"{foreign[0][0].short if foreign else ''} changes the table of accumulated costs: the cost of a trial's earlier jobs is lost at a pause / removal, the "
            "next rung records the last job's cost only and a trial that is not eligible under the cost rule is resumed")


def s9(ctx, rep):
    """reports of a resumed trial at or below the level it was resumed from are flagged ignore_data (and only those): the
    cost-aware variant drops the cost offset on such reports (shared with C14-S3)"""
    from . import c14
    sub = type(rep)(rep.prop)
    c14.s3(ctx, sub)
    for i in sub.items:
        if "ignore_data" in i.construct:
            i.clause = "S3"
            rep.items.append(i)


def s4_decision(ctx, rep):
    """HyperbandScheduler.on_trial_result: a trial the rung system does not let continue is PAUSED if the rung system resumes trials
    and the trial is below max_t, STOPPED otherwise, and its record is released either way; nothing else changes the decision"""
    from .common import dom_guard, call_nodes
    P = ctx.P
    s_ = P.method("HyperbandScheduler", "on_trial_result")
    cs = cfg_of(s_)
    tcv = vars_assigned_from(s_, lambda v: isinstance(v, ast.Subscript) and U(v.slice) == "'task_continues'")
    if len(tcv) != 1:
        raise AnchorError("HyperbandScheduler.on_trial_result: `task_continues = task_info['task_continues']` not found")
    tc = tcv[0]
    for dec in ("STOP", "PAUSE"):
        nodes = [n for n in cs.nodes if n.kind == "stmt" and isinstance(n.ast, ast.Assign) and U(n.ast.value) == f"SchedulerDecision.{dec}"]
        ok = len(nodes) == 1
        why = f"{len(nodes)} assignment(s) of {dec}"
        if ok:
            at = set(dom_guard(ctx, s_, nodes[0].id))
            no_cont = any(a[0] == "truth" and (a[1] == tc or a[1].endswith("['task_continues']")) and a[2] is False for a in at)
            if dec == "STOP":
                arm = any(a[0] == "or" and "does_pause_resume" in repr(a) and "self.max_t" in repr(a) and
                          any(p_[0] == "truth" and p_[2] is False for grp in a[1] for p_ in grp) and
                          any(p_[0] == "le" and p_[1] == "self.max_t" for grp in a[1] for p_ in grp) for a in at)
            else:
                arm = any(a[0] == "truth" and "does_pause_resume" in a[1] and a[2] is True for a in at) and \
                    any(a[0] == "lt" and a[2] == "self.max_t" for a in at)
            ok = no_cont and arm
            why = f"guarded by {sorted(map(str, at))}"
        rep.put(ok, "S4", "guarded_by", f"HyperbandScheduler.on_trial_result: {dec} | the trial may not continue and " +
                ("the rung system does not resume trials or max_t is reached" if dec == "STOP" else "the rung system resumes trials and max_t is not reached"),
                s_, nodes[0].ast if nodes else None, "", why + ": a trial at its rung level is stopped instead of paused (it can never be promoted), paused at max_t, or "
                "a trial that may continue is taken off its worker")
    cl = [n for n, c in call_nodes(ctx, s_, lambda c: fn_name(c) == "_cleanup_trial")]
    common_guard = None
    for dec in ("STOP", "PAUSE"):
        nd_ = [n for n in cs.nodes if n.kind == "stmt" and isinstance(n.ast, ast.Assign) and U(n.ast.value) == f"SchedulerDecision.{dec}"]
        if len(nd_) == 1:
            g_ = set(dom_guard(ctx, s_, nd_[0].id))
            common_guard = g_ if common_guard is None else common_guard & g_
    okc = len(cl) == 1 and common_guard is not None and set(dom_guard(ctx, s_, cl[0])) == common_guard and \
        any(a[0] == "truth" and (a[1] == tc or a[1].endswith("['task_continues']")) and a[2] is False for a in common_guard)
    rep.put(okc, "S4", "guarded_by", "HyperbandScheduler.on_trial_result: the trial's record is released | it may not continue (paused or stopped alike)", s_, None, "",
            "the rung system keeps a running-record of a trial that was paused / stopped (or loses that of a running one)")


def s10_pasha_order(ctx, rep, clause="S7"):
    """PASHARungSystem.on_task_report: the report is entered into the per-epoch results, THEN the noise level epsilon is re-estimated,
    THEN the rankings of the top two rungs are compared - the decision to raise the resource cap uses an epsilon that has seen this report"""
    from .common import out_of_order, node_calls
    f = ctx.P.method("PASHARungSystem", "on_task_report")
    cfg = cfg_of(f)
    chain = ["_update_per_epoch_results", "_update_epsilon", "_get_top_two_rungs_rankings"]
    for a_, b_ in zip(chain, chain[1:]):
        bad, firsts, thens = out_of_order(ctx, f, node_calls(a_), node_calls(b_))
        if not firsts or not thens:
            raise AnchorError(f"PASHARungSystem.on_task_report: {a_} / {b_} not found")
        rep.put(not bad, clause, "must_precede", f"PASHARungSystem.on_task_report: {a_} precedes {b_}", f, cfg.nodes[bad[0][0]].ast if bad else None, "",
                f"{b_} runs before {a_}: the ranking check of this report uses an epsilon (or results) that are one report behind - the resource cap is "
                "raised (or kept) on stale information and a trial is promoted beyond the level it is eligible for")


def run(ctx, rep, tier="quick"):
    s10_pasha_order(ctx, rep)
    s4_decision(ctx, rep)
    from . import c03
    c03.bracket_offset(ctx, rep, "S3")
    s1(ctx, rep)
    s2(ctx, rep)
    s2b(ctx, rep)
    s2c(ctx, rep)
    s3(ctx, rep)
    s4(ctx, rep)
    s5(ctx, rep)
    s6(ctx, rep)
    s7(ctx, rep)
    s8(ctx, rep)
    s9(ctx, rep)
