"""C05 - synchronous Hyperband fills rungs exactly and promotes exactly the top trials."""
import ast

from ..core.model import AnchorError
from ..core.cfg import walk_shallow, cfg_of
from ..core.facts import U, atoms_of
from ..engine import argn, fn_name, kwarg, local_defs, returns_of, stmts_in, vars_assigned_from, var_from_call, flows_into
from ..kinds import parity
from . import c13

EXPLANATION = (
    "Decides structural clauses of C05: S1 a request for work never blocks - every return of next_job hands out a slot that "
    "is known not to be None (the fall-through opens a new bracket and asserts its first slot); S2 a slot is written once "
    "and only while pending (asserts on the slot index range and on 'metric_val is None' dominate the write); S3 promotion "
    "happens only when the whole rung has reported (first free position at the end and no pending slot); S4 failed trials "
    "rank last: the sort that selects the promoted trials operates on the NaN-filtered entries, failed ones are only "
    "appended after all valid ones; S5 'best' follows the mode (reverse = (mode == 'max') on a sort keyed by the metric); "
    "S6 a failed or unobtainable job does not leave a pending slot (both synchronous schedulers: the 'no suggestion' path and "
    "on_trial_error report the slot as failed; milestone results are returned to the bracket before the pending entry is "
    "removed); S7 brackets cycle through the configured rung systems (offset = bracket_id mod number of offsets) in both "
    "bracket managers; S8 the failure sentinel exists in the numerical library. S3 also: a complete rung is left behind (rung index + 1, hand-out position 0) before the next rung is built; S6 also: _suggest resumes exactly when the slot names a trial (that trial, with its recorded configuration), starts a new trial otherwise, registers every suggestion as pending with its slot and writes a new trial's id into the slot; DEHB keeps the same books in its helper methods (pending entry, record level / metric reset on promotion, reported metric recorded, slot returned with the winner's id and metric). NOT decided: the rung sizes of the "
    "geometric system; 'exactly the best ones' under ties.")

FLOOR = {"S1": 4, "S2": 3, "S3": 2, "S4": 3, "S5": 1, "S6": 5, "S7": 2, "S8": 3, "S9": 2}


def s1(ctx, rep):
    P = ctx.P
    f = P.method("SynchronousHyperbandBracketManager", "next_job")
    cfg = cfg_of(f)
    rets = [n for n in cfg.nodes if n.kind == "stmt" and isinstance(n.ast, ast.Return)]
    if not rets:
        raise AnchorError("next_job: no return found")
    for n in rets:
        v = n.ast.value
        ok = isinstance(v, ast.Tuple) and len(v.elts) == 2
        slot = U(v.elts[1]) if ok else "?"
        ok = ok and ctx.has_fact(f, n.id, lambda a: a[0] == "is" and a[1] == slot and a[2] == "None" and a[3] is False)
        rep.put(ok, "S1", "guarded_by", f"SynchronousHyperbandBracketManager.next_job: returned slot is not None [{'scan' if any(p.kind == 'for' and n.stmt in list(stmts_in(p.ast.body)) for p in cfg.nodes) else 'new bracket'}]",
                f, n.ast, "", "next_job can hand out None as a slot: the scheduler has no work although a new bracket could be opened")
    # falling off the scan creates a new bracket (no path returns without a slot)
    cr = ctx.nodes(f, ctx.sel_call(selfcall="_create_new_bracket"), "must", 0)
    last = [n for n in rets if not any(p.kind == "for" and n.stmt in list(stmts_in(p.ast.body)) for p in cfg.nodes)]
    # from the exhausted scan (the loop's exit edge) every path to a return passes the creation; a return reached by leaving the scan
    # early (break) has its slot from the scan
    heads = [p for p in cfg.nodes if p.kind == "for"]
    exits = [s_ for h_ in heads for s_, l_ in cfg.succ[h_.id] if l_ != "iter" and not (isinstance(l_, str) and l_ == "exc")]
    ok = bool(cr) and bool(last) and bool(exits) and all(cfg.path(exits, n.id, deleted=cr, skip_labels=("exc",)) is None for n in last) and \
        cfg.path(cfg.entry, cfg.exit, deleted={n.id for n in rets}, skip_labels=("exc",)) is None
    rep.put(ok, "S1", "must_precede", "SynchronousHyperbandBracketManager.next_job: when no open bracket has a free slot a new bracket is created", f, None, "")


def s1b(ctx, rep):
    """the primary-bracket pointer moves only past brackets that are complete: every write of _primary_bracket_id in
    on_result is dominated by `<b>.is_bracket_complete()` where b is the bracket the pointer currently designates"""
    from .c01 import _dom_atoms
    P = ctx.P
    f = P.method("SynchronousHyperbandBracketManager", "on_result")
    cfg = cfg_of(f)
    wr = [n for n in cfg.nodes if n.kind == "stmt" and isinstance(n.ast, (ast.Assign, ast.AugAssign))
          and any(U(t) == "self._primary_bracket_id" for t in (n.ast.targets if isinstance(n.ast, ast.Assign) else [n.ast.target]))]
    if len(wr) < 2:
        raise AnchorError("SynchronousHyperbandBracketManager.on_result: writes of _primary_bracket_id not found")

    def tracks_primary(name):
        """every definition of the local is self._brackets[<the reported bracket id | the primary pointer>]"""
        ds = local_defs(f, name)
        if not ds:
            return False
        for d in ds:
            if isinstance(d, tuple) or not (isinstance(d, ast.Subscript) and U(d.value) == "self._brackets"):
                return False
            ix = d.slice
            if U(ix) == "self._primary_bracket_id":
                continue
            # the reported bracket id: the first element unpacked from the `result` parameter
            idd = local_defs(f, U(ix)) if isinstance(ix, ast.Name) else []
            if not (len(idd) == 1 and isinstance(idd[0], tuple) and idd[0][0] == "unpack" and U(idd[0][1]) == f.params[1] and idd[0][2] == 0):
                return False
        return True
    for n in wr:
        at = _dom_atoms(cfg, n.id)
        # loop bodies: the loop test dominates the body
        recv = [a[1][:-len(".is_bracket_complete()")] for a in at if a[0] == "truth" and a[2] is True and a[1].endswith(".is_bracket_complete()")]
        ok = any(r.isidentifier() and tracks_primary(r) for r in recv)
        rep.put(ok, "S1", "guarded_by", "SynchronousHyperbandBracketManager.on_result: the primary pointer moves only past a complete bracket", f, n.ast,
                f"guarded by {recv}", f"`{U(n.ast)}` is guarded by the completeness of {recv or 'nothing'}, which is not the bracket the primary pointer "
                "designates: the pointer can jump past brackets that are still open - next_job stops serving them and their pending "
                "results are rejected")


def s2(ctx, rep):
    P = ctx.P
    f = P.method("SynchronousBracket", "on_result")
    cfg = cfg_of(f)
    wr = _slot_writes(cfg)
    if len(wr) != 1:
        raise AnchorError("SynchronousBracket.on_result: slot write `rung[pos] = (trial id, metric)` not found")
    at = ctx.facts(f).at(wr[0].id)
    pos = U(wr[0].ast.targets[0].slice)
    rungv = U(wr[0].ast.targets[0].value)
    ok = ("le", "0", pos) in at and ("lt", pos, "self._first_free_pos") in at
    rep.put(ok, "S2", "guarded_by", "SynchronousBracket.on_result: slot index within the handed-out range", f, wr[0].ast, "0 <= pos < _first_free_pos")
    mvn = None
    for x in walk_shallow(f.node):
        if isinstance(x, ast.Assign) and isinstance(x.targets[0], ast.Tuple) and len(x.targets[0].elts) == 2 and U(x.value) == f"{rungv}[{pos}]":
            mvn = U(x.targets[0].elts[1])
    ok = mvn is not None and ("is", mvn, "None", True) in at
    rep.put(ok, "S2", "guarded_by", "SynchronousBracket.on_result: the slot is still pending (its metric is None) when written", f, wr[0].ast, "",
            "a slot can be written twice: a second result for the same slot overwrites the first and the rung never completes correctly")
    ok = ("eq", "result.rung_index", "self.current_rung", True) in at
    rep.put(ok, "S2", "guarded_by", "SynchronousBracket.on_result: results are accepted for the current rung only", f, wr[0].ast, "")
    g = P.method("SynchronousBracket", "next_free_slot")
    inc = [n for n in cfg_of(g).nodes if n.kind == "stmt" and isinstance(n.ast, ast.AugAssign) and "_first_free_pos" in U(n.ast.target)]
    pv = vars_assigned_from(g, lambda v: U(v) == "self._first_free_pos")
    ok = len(inc) == 1 and len(pv) == 1 and ctx.has_fact(g, inc[0].id, lambda a: a[0] == "lt" and a[1] == pv[0] and a[2].startswith("len("))
    rep.put(ok, "S2", "guarded_by", "SynchronousBracket.next_free_slot hands out each position once, within the rung", g, None, "")


def _slot_writes(cfg):
    """`<rung>[<pos>] = (result.trial_id, result.metric_val)`"""
    return [n for n in cfg.nodes if n.kind == "stmt" and isinstance(n.ast, ast.Assign) and isinstance(n.ast.targets[0], ast.Subscript)
            and isinstance(n.ast.value, ast.Tuple) and len(n.ast.value.elts) == 2 and U(n.ast.value.elts[1]).endswith(".metric_val")]


def _pending_count(text):
    """the text of an atom's operand counts the handed-out positions of the rung that have no metric value yet: the method that
    does so, or the count written out - sum(<entry's metric> is None for <entry> in rung[:self._first_free_pos])"""
    if text == "self.num_pending_slots()":
        return True
    try:
        e = ast.parse(text, mode="eval").body
    except SyntaxError:
        return False
    if not (isinstance(e, ast.Call) and isinstance(e.func, ast.Name) and e.func.id in ("sum", "len") and len(e.args) == 1
            and isinstance(e.args[0], (ast.GeneratorExp, ast.ListComp)) and len(e.args[0].generators) == 1):
        return False
    g = e.args[0].generators[0]
    is_none = lambda c: isinstance(c, ast.Compare) and len(c.ops) == 1 and isinstance(c.ops[0], ast.Is) and U(c.comparators[0]) == "None"
    counted = (e.func.id == "sum" and is_none(e.args[0].elt) and not g.ifs) or (len(g.ifs) == 1 and is_none(g.ifs[0]))
    prefix = isinstance(g.iter, ast.Subscript) and isinstance(g.iter.slice, ast.Slice) and g.iter.slice.lower is None \
        and g.iter.slice.upper is not None and U(g.iter.slice.upper) == "self._first_free_pos"
    return counted and prefix


def rung_complete(at):
    """(all positions handed out, none pending) as far as the atoms say"""
    handed_out = any(a[0] == "le" and a[1].startswith("len(") and a[2] == "self._first_free_pos" for a in at)
    none_pending = any(a[0] == "eq" and a[3] is True and ((a[1] == "0" and _pending_count(a[2])) or (a[2] == "0" and _pending_count(a[1]))) for a in at) or \
        any(a[0] == "le" and _pending_count(a[1]) and a[2] == "0" for a in at) or \
        any(a[0] == "truth" and _pending_count(a[1]) and a[2] is False for a in at)
    return handed_out, none_pending


def s3(ctx, rep):
    """a rung is left behind exactly when it is complete - all positions handed out and none pending - and only then is the next one
    built; stated on the conditions that dominate the actions (a flag variable, nested tests or guard clauses are the same thing)"""
    from .common import dom_guard
    P = ctx.P
    f = P.method("SynchronousBracket", "on_result")
    cfg = cfg_of(f)
    adv = [n.id for n in cfg.nodes if n.kind == "stmt" and isinstance(n.ast, ast.AugAssign) and isinstance(n.ast.op, ast.Add)
           and U(n.ast.target) == "self.current_rung" and U(n.ast.value) == "1"]
    adv += [n.id for n in cfg.nodes if n.kind == "stmt" and isinstance(n.ast, ast.Assign) and U(n.ast.targets[0]) == "self.current_rung"
            and U(n.ast.value).replace(" ", "") in ("self.current_rung+1", "1+self.current_rung")]
    rst = [n.id for n in cfg.nodes if n.kind == "stmt" and isinstance(n.ast, ast.Assign) and U(n.ast.targets[0]) == "self._first_free_pos"
           and U(n.ast.value) == "0"]
    pr = ctx.nodes(f, ctx.sel_call(selfcall="_promote_trials_at_rung_complete"), "may", 0)
    if not adv or not pr:
        raise AnchorError("SynchronousBracket.on_result: advance of the rung index / promotion call not found")

    complete = rung_complete
    for what, nodes_ in (("the rung index advances", adv), ("the next rung is built", list(pr))):
        miss = set()
        for n_ in nodes_:
            h, p_ = complete(set(dom_guard(ctx, f, n_)) | set(ctx.facts(f).at(n_)))
            if not h:
                miss.add("all positions handed out")
            if not p_:
                miss.add("no slot pending")
        rep.put(not miss, "S3", "guarded_by", f"SynchronousBracket.on_result: {what} | the rung is complete (all positions handed out, none pending)", f,
                cfg.nodes[nodes_[0]].ast, "", f"not under `{' and '.join(sorted(miss))}`: a rung is declared complete while results are still outstanding - trials are "
                "promoted before the whole rung has reported")
    # the completeness is judged after the slot was written
    wr = [n.id for n in _slot_writes(cfg)]
    ok = bool(wr) and all(cfg.path(cfg.entry, a_, deleted=set(wr)) is None for a_ in adv)
    rep.put(ok, "S3", "must_precede", "SynchronousBracket.on_result: slot written ≺ the rung is left behind", f, None, "")
    # a complete rung is left behind: index + 1 and hand-out position 0, both before the next rung is built, on every path that does either
    for what, nodes_, others, why in (("the rung index advances by one", set(adv), set(rst), "the bracket stays on the completed rung: its next result is refused, or the rung is promoted again"),
                                      ("the hand-out position is reset to 0", set(rst), set(adv), "no slot of the next rung is ever handed out (or the rung counts as complete at once)")):
        ok = bool(nodes_) and all(cfg.path(cfg.entry, p_, deleted=nodes_, skip_labels=("exc",)) is None for p_ in pr) and \
            all(cfg.path(cfg.entry, o_, deleted=nodes_, skip_labels=("exc",)) is None or
                cfg.path([s_ for s_, l in cfg.succ[o_]], cfg.exit, deleted=nodes_, skip_labels=("exc",)) is None for o_ in others)
        rep.put(ok, "S3", "must_follow", f"SynchronousBracket.on_result: when the rung is complete, {what} (before the next rung is built)", f, None, "", why)
    others = [(m_, x) for c_ in ctx.family("SynchronousBracket") for m_ in c_.methods.values() if m_.name not in ("__init__", "on_result")
              for x in walk_shallow(m_.node) if isinstance(x, (ast.Assign, ast.AugAssign))
              and any(U(t) == "self.current_rung" for t in (x.targets if isinstance(x, ast.Assign) else [x.target]))]
    rep.put(not others, "S3", "who_may_write", "SynchronousBracket.current_rung is advanced by on_result only", f, others[0][1] if others else None, "",
            f"{others[0][0].short if others else ''} moves the bracket to another rung outside the completion of the current one")
    g = P.method("SynchronousBracket", "num_pending_slots")
    from ..engine import canon_text as _ct
    import re as _re
    # (the count may go through a local; comprehension variables are numbered by canon_text - any name will do for them)
    ok = any(r_.value is not None and (_pending_count(U(r_.value)) or _pending_count(_re.sub(r"\b_b(\d+)\b", r"x\1", _ct(g, r_.value))))
             for r_ in returns_of(g) if not isinstance(r_.value, ast.Constant))
    rep.put(ok, "S3", "agreement", "SynchronousBracket.num_pending_slots counts handed-out positions without a metric", g, None, "")


def s4_s5(ctx, rep):
    P = ctx.P
    f = P.func("syne_tune.optimizer.schedulers.synchronous.hyperband_bracket.get_top_list")
    # the NaN-filtered list: a local every element of which enters under "not NaN" - as the `if` of a comprehension or as the guard of
    # an append in a loop over the rung
    from .common import inclusion_sites
    from ..engine import deref as _dr
    valid = None
    for name in sorted({x.id for x in ast.walk(f.node) if isinstance(x, ast.Name)}):
        sites_ = inclusion_sites(ctx, f, name)
        if sites_ and all(any(a[0] == "truth" and "isnan" in a[1] and a[2] is False for a in at) and any(f.params[0] in {y.id for y in ast.walk(_dr(f, it)) if isinstance(y, ast.Name)} for it in its)
                          for _, _, at, its in sites_) and len([d for d in local_defs(f, name) if not isinstance(d, tuple)]) == 1:
            valid = name
    if valid is None:
        raw = [x for x in walk_shallow(f.node, include_lambda=True) if isinstance(x, ast.Call) and (
            (isinstance(x.func, ast.Name) and x.func.id in ("sorted", "min", "max")) or fn_name(x) == "sort")
            and any(isinstance(y, ast.Name) and y.id == f.params[0] for a_ in (x.args[:1] or [x.func]) for y in ast.walk(a_))]
        if raw:
            # no list of valid entries at all, and the rung itself is ordered: NaN takes part in the comparisons
            rep.bad("S4", "taint", "get_top_list: every ordering operation runs over the NaN-filtered entries", f, raw[0],
                    f"`{U(raw[0])[:80]}` orders the rung as it is - the NaN of failed trials is compared with metric values (a sort key that "
                    "puts a NaN flag first is reversed together with the metric for mode 'max': failed trials then rank first)")
            return
        raise AnchorError("get_top_list: NaN-filtered list not found")
    ORDERING = {"sorted", "sort", "min", "max", "argsort", "argmin", "argmax", "nanargmin", "nanargmax", "nsmallest", "nlargest", "partition", "argpartition"}

    def ordering(x):
        if not isinstance(x, ast.Call):
            return False
        fs = [x.func.body, x.func.orelse] if isinstance(x.func, ast.IfExp) else [x.func]
        return any((isinstance(g_, ast.Name) and g_.id in ORDERING) or (isinstance(g_, ast.Attribute) and g_.attr in ORDERING) for g_ in fs)

    allord = [x for x in walk_shallow(f.node, include_lambda=True) if ordering(x)]
    sorts = [x for x in allord if (isinstance(x.func, ast.Name) and x.func.id == "sorted") or fn_name(x) == "sort"]
    # every comparison of metric values in this function is made among valid entries: an ordering operation over anything but the
    # NaN-filtered list (a shortcut for a one-slot rung, a pre-selection) lets a NaN decide - NaN compares false with everything
    for x in allord:
        a0 = argn(x, 0) if x.args else (x.func.value if isinstance(x.func, ast.Attribute) else None)
        names = {y.id for y in ast.walk(a0) if isinstance(y, ast.Name)} if a0 is not None else set()
        if a0 is not None and valid not in names and not (isinstance(a0, ast.Name) and any(
                not isinstance(d, tuple) and valid in {y.id for y in ast.walk(d) if isinstance(y, ast.Name)} for d in local_defs(f, a0.id))):
            if names & {f.params[0]} or not names:
                rep.bad("S4", "taint", "get_top_list: every ordering operation runs over the NaN-filtered entries", f, x,
                        f"`{U(x)[:80]}` orders entries that still contain the NaN of failed trials: comparisons with NaN are all false, so a failed "
                        "trial in the first position is never displaced and is promoted over valid trials")
    if len(sorts) != 1:
        raise AnchorError("get_top_list: expected exactly one sort")
    srt = sorts[0]
    arg = argn(srt, 0) if srt.args else srt.func.value
    ok = isinstance(arg, ast.Name) and arg.id == valid and len([d for d in local_defs(f, valid)]) == 1
    rep.put(ok, "S4", "taint", "get_top_list: the ranking sort operates on the NaN-filtered entries", f, srt, f"sorted({valid}, ...)",
            f"the sort runs over `{U(arg)}`, which still contains the NaN entries of failed trials: NaN breaks the ordering, so the "
            "promoted prefix can contain a worse valid trial (or a failed one) and drop a better one")
    # top list taken from the sorted list by a prefix slice of the new rung size
    from ..engine import deref
    ok = any(isinstance(x, ast.Subscript) and isinstance(x.slice, ast.Slice) and x.slice.lower is None and x.slice.step is None and x.slice.upper is not None
             and U(x.slice.upper) == "new_len" and deref(f, x.value) is not None and U(deref(f, x.value)) == U(srt)
             for x in walk_shallow(f.node, include_lambda=True))
    rep.put(ok, "S4", "agreement", "get_top_list: the promoted trials are the first new_len entries of the sorted valid list", f, srt, "")
    # failed trials only appended after all valid ones, and only on the edge "not enough valid"
    cfg = cfg_of(f)
    pads = [n for n in cfg.nodes if n.kind == "stmt" and isinstance(n.ast, ast.Assign) and isinstance(n.ast.value, ast.BinOp)
            and isinstance(n.ast.value.op, ast.Add) and isinstance(n.ast.value.right, ast.Subscript)
            and any(bool(inclusion_sites(ctx, f, nm)) and all(any(a[0] == "truth" and "isnan" in a[1] and a[2] is True for a in at_)
                                                               for _, _, at_, _ in inclusion_sites(ctx, f, nm))
                    for nm in {x.id for x in ast.walk(n.ast.value.right) if isinstance(x, ast.Name)})]
    ok = len(pads) == 1
    if ok:
        v = pads[0].ast.value
        nv = vars_assigned_from(f, lambda x: U(x) == f"len({valid})")
        ok = valid in U(v.left) and bool(nv) and f"new_len - {nv[0]}" in U(v.right).replace("(", "").replace(")", "")
        at = ctx.facts(f).at(pads[0].id)
        ok = ok and bool(nv) and ("lt", nv[0], "new_len") in at
    rep.put(ok, "S4", "guarded_by", "get_top_list: failed trials are promoted only after all valid ones and only to fill the rung", f,
            pads[0].ast if pads else None, "")
    # S5
    rv = kwarg(srt, "reverse")
    key = kwarg(srt, "key")
    m = parity.mode_test(rv) if rv is not None else None
    kok = key is not None and U(key) in ("itemgetter(1)", "lambda x: x[1]", "operator.itemgetter(1)")
    rep.put(m == "max" and kok, "S5", "parity", "get_top_list: sort keyed by the metric with reverse = (mode == 'max')", f, srt,
            f"key={U(key) if key is not None else None}, reverse={U(rv) if rv is not None else None}",
            "the sort direction does not follow the mode: the worst trials are promoted for one of the modes")


def s6(ctx, rep):
    P = ctx.P
    for cname, fail in (("SynchronousHyperbandScheduler", "_report_as_failed"), ("DifferentialEvolutionHyperbandScheduler", "_report_as_failed")):
        c = P.cls(cname)
        # (a) no suggestion => slot reported as failed
        sug = c.methods.get("_suggest") if "_suggest" in c.methods else None
        cand = [m for m in c.methods.values() if any(isinstance(x, ast.Call) and fn_name(x) == fail for x in walk_shallow(m.node))
                and m.name not in ("on_trial_error", fail)]
        ok = False
        where = None
        for m in cand:
            cm = cfg_of(m)
            for nid, call in ctx.calls_in(m, selfcall=fail):
                at = ctx.facts(m).at(nid)
                if any((a[0] == "is" and a[2] == "None" and a[3] is True) for a in at):
                    ok = True
                    where = m
        rep.put(ok, "S6", "guarded_by", f"{cname}: when no configuration can be suggested the slot is reported as failed", where or c, None, "",
                "a slot handed out by the bracket stays pending forever when the searcher cannot suggest a configuration")
        # (b) on_trial_result at the milestone: result returned to the bracket
        r = c.methods["on_trial_result"]
        cr = cfg_of(r)
        back = ctx.nodes(r, ctx.sel_or(ctx.sel_call(selfcall="_on_result"), ctx.sel_call(selfcall="_return_slot_result_to_bracket")), "must", 0)
        edge = [(n.id, s) for n in cr.nodes if n.kind == "test" for s, l in cr.succ[n.id]
                if isinstance(l, tuple) and l[2] is True and any(
                    a[0] == "le" and any("level" in U(d) for d in local_defs(r, a[1]) if not isinstance(d, tuple))
                    for a in atoms_of(l[1], True))]
        ok = bool(back) and bool(edge) and all(cr.path(s, cr.exit, deleted=back, skip_labels=("exc",)) is None for _, s in edge)
        rep.put(ok, "S6", "must_follow", f"{cname}.on_trial_result: a result at the milestone is returned to the bracket", r, None, "")
        dl = {n.id for n in cr.nodes if n.kind == "stmt" and isinstance(n.ast, ast.Delete) and "_trial_to_pending_slot" in U(n.ast)}
        if dl:
            ok = all(cr.path(cr.entry, d, deleted=back) is None for d in dl)
            rep.put(ok, "S6", "must_precede", f"{cname}.on_trial_result: slot result returned ≺ pending entry removed", r, None, "")
        else:
            rep.info("S6", "sibling", f"{cname}.on_trial_result keeps the pending entry after the milestone", r, None,
                     "sibling difference to SynchronousHyperbandScheduler (no clause depends on it given C02)")
    # on_trial_error parts are shared with C13-S3
    c13.s3(ctx, _Filter(rep, "S6", only=("SynchronousHyperbandScheduler", "DifferentialEvolutionHyperbandScheduler")))


def s6c(ctx, rep):
    """SynchronousHyperbandScheduler._suggest: the job handed out by the bracket is the job the trial must answer.
    A slot that names a trial is a promotion (that trial is resumed with its own configuration), a slot that names none is
    a new trial (which is then written into the slot); every suggestion returned is registered as pending under its id."""
    from .common import require_guard, call_nodes, dom_guard
    P = ctx.P
    f = P.method("SynchronousHyperbandScheduler", "_suggest")
    cfg = cfg_of(f)
    # the slot variable: second element unpacked from next_job()
    slot = None
    for x in walk_shallow(f.node):
        if isinstance(x, ast.Assign) and isinstance(x.targets[0], ast.Tuple) and len(x.targets[0].elts) == 2 and isinstance(x.value, ast.Call) \
                and fn_name(x.value) == "next_job":
            slot = U(x.targets[0].elts[1])
    if slot is None:
        raise AnchorError("SynchronousHyperbandScheduler._suggest: `bracket_id, slot = bracket_manager.next_job()` not found")
    res = [n for n, c in call_nodes(ctx, f, lambda c: fn_name(c) == "resume_suggestion")]
    sta = [n for n, c in call_nodes(ctx, f, lambda c: fn_name(c) == "start_suggestion")]
    from ..engine import deref

    def names_slot_id(txt):
        try:
            return U(deref(f, ast.parse(txt, mode="eval").body)) == f"{slot}.trial_id"
        except SyntaxError:
            return False
    require_guard(ctx, rep, "S6", f, "SynchronousHyperbandScheduler._suggest: a trial is resumed | the slot names a trial", res,
                  [(f"{slot}.trial_id is not None", lambda a: a[0] == "is" and names_slot_id(a[1]) and a[2] == "None" and a[3] is False)],
                  "a slot of a higher rung (which names the promoted trial) starts a new trial, or a free slot of the first rung resumes trial `None`")
    require_guard(ctx, rep, "S6", f, "SynchronousHyperbandScheduler._suggest: a new trial is started | the slot names no trial", sta,
                  [(f"{slot}.trial_id is None", lambda a: a[0] == "is" and names_slot_id(a[1]) and a[2] == "None" and a[3] is True)],
                  "a promotion slot is answered by a new trial: the promoted trial never runs at the next level and the rung holds a stranger")
    # the resumed trial is the one the slot names, with the configuration recorded for it
    rc = [c for n, c in call_nodes(ctx, f, lambda c: fn_name(c) == "resume_suggestion")]
    from ..engine import deref
    tid = deref(f, kwarg(rc[0], "trial_id", 0)) if rc and kwarg(rc[0], "trial_id", 0) is not None else None
    okr = tid is not None and U(tid) == f"{slot}.trial_id"
    cfgv = kwarg(rc[0], "config", 1) if rc else None
    okc = cfgv is not None and flows_into(f, cfgv, lambda y: isinstance(y, ast.Subscript) and U(y.value) == "self._trial_to_config"
                                          and U(deref(f, y.slice)) == f"{slot}.trial_id")
    rep.put(okr and bool(okc), "S6", "agreement", "SynchronousHyperbandScheduler._suggest: the trial resumed is the slot's trial with its recorded configuration", f,
            rc[0] if rc else None, "", "another trial (or another configuration) than the one the bracket promoted is resumed")
    # every suggestion that is returned has been registered as pending (and a new trial has been written into its slot)
    pend = {n.id for n in cfg.nodes if n.kind == "stmt" and isinstance(n.ast, ast.Assign) and any(
        isinstance(t, ast.Subscript) and U(t.value) == "self._trial_to_pending_slot" for t in n.ast.targets)
        and isinstance(n.ast.value, ast.Tuple) and U(n.ast.value.elts[-1]) == slot}
    sugv = {U(n.ast.targets[0]) for n in cfg.nodes if n.kind == "stmt" and isinstance(n.ast, ast.Assign) and n.id in res + sta}

    def live(lab):      # the suggestion variable holds a call result on these paths: its `is None` edges are not taken
        return not (isinstance(lab, tuple) and lab[0] == "cond" and any(a[0] == "is" and a[1] in sugv and a[2] == "None" and a[3] is True
                                                                        for a in atoms_of(lab[1], lab[2])))

    def through(n, marks):
        return cfg.path([cfg.entry], n, deleted=marks, skip_labels=("exc",)) is None or \
            cfg.path([n], cfg.exit, deleted=marks, skip_labels=("exc",), edge_ok=live) is None
    okp = bool(pend) and len(sugv) == 1 and all(through(n, pend) for n in res + sta)
    rep.put(okp, "S6", "must_follow", "SynchronousHyperbandScheduler._suggest: every suggestion is registered in _trial_to_pending_slot with its slot", f, None, "",
            "a trial runs without a pending entry: its result at the rung level is ignored ('not pending'), the slot stays empty and the rung never completes")
    wr = {n.id for n in cfg.nodes if n.kind == "stmt" and isinstance(n.ast, ast.Assign) and any(U(t) == f"{slot}.trial_id" for t in n.ast.targets)}
    okw = bool(wr) and all(through(n, wr) for n in sta)
    rep.put(okw, "S6", "must_follow", "SynchronousHyperbandScheduler._suggest: a new trial's id is written into its slot", f, None, "",
            "the slot of a new trial keeps trial id None: its result is stored without an id and the trial can never be promoted")
    # ... and only then: a slot that is reported as failed because no configuration could be suggested still names no trial
    fails = [n for n, c in call_nodes(ctx, f, lambda c: fn_name(c) == "_report_as_failed")]
    made = set(res + sta)       # nodes that bind the suggestion: a path through one of them does not end in the no-suggestion branch
    oknf = bool(wr) and bool(fails) and all(
        cfg.path([cfg.entry], w_, deleted=made - {w_}, skip_labels=("exc",)) is None or      # written after the suggestion exists
        all(cfg.path([w_], f_, deleted=made - {w_}, skip_labels=("exc",)) is None for f_ in fails) for w_ in wr)
    rep.put(oknf, "S6", "must_precede", "SynchronousHyperbandScheduler._suggest: a slot reported as failed for want of a configuration names no trial", f, None, "",
            "the trial id is written into the slot before it is known that the trial starts: when the searcher has no configuration the rung records "
            "(trial id, NaN) for a trial that never ran - the caller reuses the id, and a rung with too few valid results promotes a trial that does not exist")
    rec = {n.id for n in cfg.nodes if n.kind == "stmt" and isinstance(n.ast, ast.Assign) and any(
        isinstance(t, ast.Subscript) and U(t.value) == "self._trial_to_config" for t in n.ast.targets)}
    okcfg = bool(rec) and all(through(n, rec) for n in sta)
    rep.put(okcfg, "S6", "must_follow", "SynchronousHyperbandScheduler._suggest: a new trial's configuration is recorded", f, None, "",
            "the configuration of a new trial is not recorded: its promotion fails with KeyError")


def s6d(ctx, rep):
    """DEHB keeps the same books as synchronous Hyperband, spread over helper methods: a job that is handed out is registered
    as pending with its slot, the trial's record carries the level it runs to and no metric until it reports, and the slot
    goes back to the bracket with the winner's id and the winner's metric."""
    from ..engine import deref
    P = ctx.P
    c = P.cls("DifferentialEvolutionHyperbandScheduler")

    def every_path(m, pred, what, why):
        cm = cfg_of(m)
        marks = {n.id for n in cm.nodes if n.kind == "stmt" and isinstance(n.ast, (ast.Assign, ast.AugAssign)) and pred(m, n.ast)}
        ok = bool(marks) and cm.path([cm.entry], cm.exit, deleted=marks, skip_labels=("exc",)) is None
        rep.put(ok, "S6", "must_follow", f"DifferentialEvolutionHyperbandScheduler.{m.name}: {what}", m, None, "", why)

    def pend(m, st):
        return isinstance(st, ast.Assign) and any(isinstance(t, ast.Subscript) and U(t.value) == "self._trial_to_pending_slot" and U(t.slice) == m.params[1]
                                                   for t in st.targets) and U(st.value) == m.params[2]

    def field(name, value_pred):
        def pred(m, st):
            return isinstance(st, ast.Assign) and any(isinstance(t, ast.Attribute) and t.attr == name and "_trial_info" in U(deref(m, t.value))
                                                       for t in st.targets) and value_pred(m, st.value)
        return pred
    reg, pro = c.methods["_register_new_config_and_make_suggestion"], c.methods["_promote_trial_and_make_suggestion"]
    for m in (reg, pro):
        every_path(m, pend, "the job is registered as pending under the trial's id with its slot",
                   "the trial runs without a pending entry: its result at the rung level is discarded and the slot stays empty")
    every_path(reg, lambda m, st: isinstance(st, ast.Assign) and any(isinstance(t, ast.Subscript) and U(t.value) == "self._trial_info" and U(t.slice) == m.params[1]
                                                                     for t in st.targets) and isinstance(st.value, ast.Call)
               and kwarg(st.value, "level") is not None and U(kwarg(st.value, "level")) == f"{m.params[2]}.level"
               and kwarg(st.value, "encoded_config") is not None and U(kwarg(st.value, "encoded_config")) == m.params[3],
               "the new trial is recorded with its encoded configuration and the level of its slot",
               "the trial's record names another level or configuration: the sanity check at its report fails, or a different configuration is promoted")
    every_path(pro, field("level", lambda m, v: U(v) == f"{m.params[2]}.level"), "the promoted trial's record moves to the level of its new slot",
               "the record keeps the old level: the report at the new rung level is rejected")
    every_path(pro, field("metric_val", lambda m, v: isinstance(v, ast.Constant) and v.value is None), "the promoted trial's record has no metric until it reports again",
               "the metric of the previous rung stays in the record and is taken for the new rung's result")
    rec = c.methods["_record_new_metric_value"]
    every_path(rec, field("metric_val", lambda m, v: U(v) == m.params[3]), "the reported metric is written to the trial's record",
               "selection and promotion read a missing (or stale) metric")
    ret = c.methods["_return_slot_result_to_bracket"]
    cr = cfg_of(ret)
    w, sl = ret.params[1], ret.params[2]
    back = {n.id for n in cr.nodes if any(isinstance(x, ast.Call) and fn_name(x) == "on_result" for x in cr.node_walk(n.id))}
    for attr_, want, what in (("trial_id", lambda v: U(v) == w, "the winner's id"),
                              ("metric_val", lambda v: isinstance(v, ast.Attribute) and v.attr == "metric_val" and "_trial_info" in U(v) and f"[{w}]" in U(v), "the winner's metric")):
        marks = {n.id for n in cr.nodes if n.kind == "stmt" and isinstance(n.ast, ast.Assign) and any(U(t) == f"{sl}.{attr_}" for t in n.ast.targets) and want(n.ast.value)}
        ok = bool(marks) and bool(back) and all(cr.path([cr.entry], b, deleted=marks, skip_labels=("exc",)) is None for b in back)
        rep.put(ok, "S6", "must_precede", f"DifferentialEvolutionHyperbandScheduler._return_slot_result_to_bracket: the slot carries {what} when it is returned", ret, None, "",
                "the bracket records another trial or metric than the winner of the selection: the wrong trials are ranked and promoted")
    # _suggest: a trial is resumed only if pause/resume is supported and the configuration came from a promotion
    from .common import require_guard, call_nodes
    sg = c.methods["_suggest"]
    nodes = [n for n, x in call_nodes(ctx, sg, lambda x: fn_name(x) == "_promote_trial_and_make_suggestion")]
    require_guard(ctx, rep, "S6", sg, "DifferentialEvolutionHyperbandScheduler._suggest: a trial is resumed | pause/resume is supported and a trial was promoted", nodes,
                  [("self._support_pause_resume", lambda a: a[0] == "truth" and a[1] == "self._support_pause_resume" and a[2] is True),
                   ("promoted_from_trial_id is not None", lambda a: a[0] == "is" and a[2] == "None" and a[3] is False)],
                  "a new configuration is run by resuming trial `None`, or a promotion resumes although the backend was told trials are never resumed")


class _Filter:
    """Forward only the items about the named classes, re-labelled with this property's clause."""

    def __init__(self, rep, clause, only):
        self.rep, self.clause, self.only = rep, clause, only

    def _keep(self, construct):
        return any(o in construct for o in self.only)

    def put(self, cond, clause, rule, construct, *a, **k):
        if self._keep(construct):
            return self.rep.put(cond, self.clause, rule, construct, *a, **k)
        return cond

    def ok(self, clause, rule, construct, *a, **k):
        if self._keep(construct):
            self.rep.ok(self.clause, rule, construct, *a, **k)

    def bad(self, clause, rule, construct, *a, **k):
        if self._keep(construct):
            self.rep.bad(self.clause, rule, construct, *a, **k)

    def info(self, clause, rule, construct, *a, **k):
        pass


def s7(ctx, rep):
    P = ctx.P
    for cname in ("SynchronousHyperbandBracketManager", "DifferentialEvolutionHyperbandBracketManager"):
        f = P.lookup_method(P.cls(cname), "_create_new_bracket")        # own or inherited
        if f is None:
            raise AnchorError(f"{cname}._create_new_bracket vanished")
        offn = vars_assigned_from(f, lambda v: isinstance(v, ast.BinOp) and isinstance(v.op, ast.Mod))
        offn = offn[0] if offn else "?"
        off = [d for d in local_defs(f, offn) if not isinstance(d, tuple)]
        ok = len(off) == 1 and isinstance(off[0], ast.BinOp) and isinstance(off[0].op, ast.Mod) and U(off[0].right) == "self.num_bracket_offsets"
        if ok:
            l = off[0].left
            ds = [U(d) for d in local_defs(f, U(l)) if not isinstance(d, tuple)]
            ok = ds == ["self._next_bracket_id"]
        used = any(isinstance(x, ast.Subscript) and U(x.value) == "self._bracket_rungs" and U(x.slice) == offn for x in walk_shallow(f.node))
        if not used:
            # the bracket is built by a method of the manager that is handed the offset (a hook the subclasses override): in this
            # class's version of it the rungs are looked up with that parameter
            for x in walk_shallow(f.node):
                if isinstance(x, ast.Call) and isinstance(x.func, ast.Attribute) and U(x.func.value) == "self" and any(U(a_) == offn for a_ in x.args):
                    h = P.lookup_method(P.cls(cname), x.func.attr)
                    if h is not None:
                        hp_ = [p_ for p_ in h.params if p_ != "self"]
                        pos = [i_ for i_, a_ in enumerate(x.args) if U(a_) == offn]
                        if pos and pos[0] < len(hp_):
                            pn = hp_[pos[0]]
                            used = used or any(isinstance(y, ast.Subscript) and U(y.value) == "self._bracket_rungs" and U(y.slice) == pn
                                               for y in walk_shallow(h.node)) or \
                                any(isinstance(y, ast.Subscript) and "_bracket_rungs" in U(y.value) and U(y.slice) == pn for y in walk_shallow(h.node))
        rep.put(ok and used, "S7", "agreement", f"{cname}._create_new_bracket: rung system = bracket_rungs[bracket_id % num_bracket_offsets]", f, None, "",
                "new brackets do not cycle through the configured rung systems")


def s2b(ctx, rep):
    """guard table of the bracket protocol (found thin by the generic mutation audit)"""
    from .common import require_guard, call_nodes
    P = ctx.P
    b = P.cls("SynchronousBracket")
    for mname, what in (("next_free_slot", "no slot is handed out"), ("num_pending_slots", "no slot counts as pending")):
        m = b.methods[mname]
        cm = cfg_of(m)
        first = [n.id for n in cm.nodes if n.kind == "stmt" and isinstance(n.ast, ast.Return) and isinstance(n.ast.value, ast.Constant)
                 and n.ast.value.value in (None, 0)][:1]
        require_guard(ctx, rep, "S2", m, f"SynchronousBracket.{mname}: {what} | the bracket is complete", first,
                      [("self.is_bracket_complete()", lambda a: a[0] == "truth" and a[1] == "self.is_bracket_complete()" and a[2] is True)],
                      "a finished bracket keeps handing out work, or an open one refuses to")
    o = b.methods["on_result"]
    nodes = [n for n, c in call_nodes(ctx, o, lambda c: fn_name(c) == "_promote_trials_at_rung_complete")]
    require_guard(ctx, rep, "S3", o, "SynchronousBracket.on_result: the next rung is opened | the bracket is not complete yet", nodes,
                  [("not self.is_bracket_complete()", lambda a: a[0] == "truth" and a[1] == "self.is_bracket_complete()" and a[2] is False)],
                  "promotion is attempted beyond the last rung, or the next rung of an open bracket is never filled")
    for cname in ("SynchronousHyperbandScheduler", "DifferentialEvolutionHyperbandScheduler"):
        m = P.method(cname, "on_trial_result")
        nodes = [n for n, c in call_nodes(ctx, m, lambda c: fn_name(c) in ("_on_result", "_return_slot_result_to_bracket"))]
        require_guard(ctx, rep, "S6", m, f"{cname}.on_trial_result: a result is returned to the bracket | the trial is pending and reached its level", nodes,
                      [("trial_id in self._trial_to_pending_slot", lambda a: a[0] == "in" and a[2] == "self._trial_to_pending_slot" and a[3] is True),
                       ("resource >= milestone", lambda a: a[0] == "le")],
                      "results of trials that are not pending (or below their rung level) fill slots of the rung")
    mg = P.method("SynchronousHyperbandBracketManager", "on_result")
    cg = cfg_of(mg)
    wr = [n.id for n in cg.nodes if n.kind == "stmt" and isinstance(n.ast, (ast.Assign, ast.AugAssign))
          and any(U(t) == "self._primary_bracket_id" for t in (n.ast.targets if isinstance(n.ast, ast.Assign) else [n.ast.target]))]
    require_guard(ctx, rep, "S1", mg, "SynchronousHyperbandBracketManager.on_result: the primary pointer moves | the result was for the primary bracket", wr,
                  [("bracket_id == self._primary_bracket_id", lambda a: a[0] == "eq" and a[3] is True and "self._primary_bracket_id" in (a[1], a[2]))],
                  "a result for a later bracket moves the primary pointer: the open primary bracket is skipped")


def s6b(ctx, rep):
    """a trial can be resumed by promotion as long as its bracket lives - including a failed one when a rung has too few
    valid results - so nothing may remove its configuration from the scheduler's record"""
    from ..core.facts import MUTATORS
    P = ctx.P
    for cname, attr in (("SynchronousHyperbandScheduler", "_trial_to_config"),):
        c = P.cls(cname)
        rm = []
        for k in P.all_subclasses(c, strict=False):
            for m in k.methods.values():
                for x in walk_shallow(m.node):
                    if isinstance(x, ast.Call) and isinstance(x.func, ast.Attribute) and x.func.attr in ("pop", "popitem", "clear") \
                            and U(x.func.value) == "self." + attr:
                        rm.append((m, x))
                    if isinstance(x, ast.Delete) and any(isinstance(t, ast.Subscript) and U(t.value) == "self." + attr for t in x.targets):
                        rm.append((m, x))
        rep.put(not rm, "S6", "who_may_write", f"{cname}.{attr}: no configuration is ever removed", c, rm[0][1] if rm else None, "",
                f"{rm[0][0].short if rm else ''} removes an entry: a failed trial that get_top_list still promotes (too few valid results in the rung) "
                "is resumed by _suggest, which looks its configuration up - KeyError, the slot is never filled and the bracket waits for ever")


def s9(ctx, rep):
    """the top list of a completed rung is cut to the size of the rung above it: get_top_list(rung = rungs[k - 1],
    new_len = size of rungs[k]) at every call site"""
    P = ctx.P
    n = 0
    for f in sorted(P.functions.values(), key=lambda f: f.qualname):
        for x in walk_shallow(f.node):
            if not (isinstance(x, ast.Call) and fn_name(x) == "get_top_list"):
                continue
            n += 1
            R, N = kwarg(x, "rung", 0), kwarg(x, "new_len", 1)

            def rung_index(e, want_first):
                """index expression k such that e is the entry list / size of self._rungs[k]"""
                if isinstance(e, ast.Name):
                    ds = local_defs(f, e.id)
                    if len(ds) == 1 and isinstance(ds[0], tuple) and ds[0][0] == "unpack" and ds[0][2] == 0 and isinstance(ds[0][1], ast.Subscript) \
                            and U(ds[0][1].value) == "self._rungs":
                        return ds[0][1].slice
                    if len(ds) == 1 and isinstance(ds[0], ast.AST):
                        return rung_index(ds[0], want_first)
                if isinstance(e, ast.Subscript) and U(e.slice) == "0" and isinstance(e.value, ast.Subscript) and U(e.value.value) == "self._rungs":
                    return e.value.slice
                if isinstance(e, ast.Call) and U(e.func) == "self.size_of_current_rung" and not want_first:
                    return ast.parse("self.current_rung", mode="eval").body
                if isinstance(e, ast.Call) and fn_name(e) == "len" and e.args and not want_first:
                    return rung_index(argn(e, 0), True)
                return None
            kr, kn = rung_index(R, True), rung_index(N, False)

            def norm(ix):
                # pos -> its definition (pos = self.current_rung)
                if isinstance(ix, ast.Name):
                    ds = [d for d in local_defs(f, ix.id) if not isinstance(d, tuple)]
                    if len(ds) == 1:
                        return U(ds[0])
                return U(ix) if ix is not None else None
            ok = kr is not None and kn is not None and isinstance(kr, ast.BinOp) and isinstance(kr.op, ast.Sub) and U(kr.right) == "1" \
                and norm(kr.left) == norm(kn)
            rep.put(ok, "S9", "agreement", f"{f.short}: get_top_list ranks rung k-1 and keeps as many as rung k holds", f, x,
                    f"rung = rungs[{U(kr) if kr is not None else '?'}], new_len = size of rungs[{U(kn) if kn is not None else '?'}]",
                    f"`{U(x)[:90]}`: the number of entries kept is not the size of the rung above the ranked one (e.g. the ranked rung's own "
                    "length): with a failed entry the valid ones are fewer than that, the 'not enough valid entries' fallback returns them "
                    "unsorted, and trials are promoted in slot order instead of best first")
    if n < 2:
        raise AnchorError(f"C05-S9: {n} get_top_list call sites (2 confirmed)")


def run(ctx, rep, tier="quick"):
    s1(ctx, rep)
    s1b(ctx, rep)
    s2(ctx, rep)
    s2b(ctx, rep)
    s6b(ctx, rep)
    s3(ctx, rep)
    s4_s5(ctx, rep)
    s6(ctx, rep)
    s6c(ctx, rep)
    s6d(ctx, rep)
    s7(ctx, rep)
    c13.s6(ctx, rep, clause="S8")
    s9(ctx, rep)
