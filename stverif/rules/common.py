"""Sub-rules shared by several properties."""
import ast

from ..core.model import AnchorError, FuncInfo, ClassInfo
from ..core.cfg import walk_shallow, cfg_of
from ..core.facts import U, atoms_of
from ..engine import argn, fn_name, kwarg, local_defs

T, F, UNK = True, False, None


def eval3(e, assume):
    """Three-valued evaluation of a boolean expression.

    ``assume`` maps frozenset({unparse(a), unparse(b)}) -> truth of ``a == b``.
    """
    if isinstance(e, ast.Constant):
        return bool(e.value)
    if isinstance(e, ast.UnaryOp) and isinstance(e.op, ast.Not):
        v = eval3(e.operand, assume)
        return UNK if v is UNK else (not v)
    if isinstance(e, ast.BoolOp):
        vals = [eval3(v, assume) for v in e.values]
        if isinstance(e.op, ast.And):
            if any(v is F for v in vals):
                return F
            return T if all(v is T for v in vals) else UNK
        if any(v is T for v in vals):
            return T
        return F if all(v is F for v in vals) else UNK
    if isinstance(e, ast.Compare) and len(e.ops) == 1:
        k = frozenset({U(e.left), U(e.comparators[0])})
        if k in assume and len(k) == 2:
            eq = assume[k]
            if isinstance(e.ops[0], ast.Eq):
                return eq
            if isinstance(e.ops[0], ast.NotEq):
                return not eq
        return UNK
    if isinstance(e, ast.IfExp):
        c = eval3(e.test, assume)
        if c is T:
            return eval3(e.body, assume)
        if c is F:
            return eval3(e.orelse, assume)
        a, b = eval3(e.body, assume), eval3(e.orelse, assume)
        return a if a == b else UNK
    return UNK


def predicate_body(ctx, f, arg):
    """Resolve a predicate argument (lambda / local def / name) to (param name, [return exprs])."""
    if isinstance(arg, ast.Lambda):
        ps = [a.arg for a in arg.args.args]
        return (ps[0] if ps else None), [arg.body]
    if isinstance(arg, ast.Name):
        g = f
        while g is not None:
            if arg.id in g.nested:
                h = g.nested[arg.id]
                rets = [n.value for n in walk_shallow(h.node) if isinstance(n, ast.Return) and n.value is not None]
                ps = [p for p in h.params if p != "self"]
                return (ps[0] if ps else None), rets
            g = g.parent
        # local variable bound to a lambda
        for n in walk_shallow(f.node):
            if isinstance(n, ast.Assign) and len(n.targets) == 1 and isinstance(n.targets[0], ast.Name) \
                    and n.targets[0].id == arg.id and isinstance(n.value, ast.Lambda):
                return predicate_body(ctx, f, n.value)
        # a module-level function used as the predicate
        h = f.module.functions.get(arg.id) if hasattr(f.module, "functions") else None
        if h is not None:
            rets = [n.value for n in walk_shallow(h.node) if isinstance(n, ast.Return) and n.value is not None]
            return (h.params[0] if h.params else None), rets
    # functools.partial(function, bound arguments...): the predicate's parameter is the first one that is not bound; the bound ones
    # stand for the arguments given (their names are substituted into the returned expressions when they are plain names)
    if isinstance(arg, ast.Call) and fn_name(arg) == "partial" and arg.args and isinstance(arg.args[0], ast.Name) and not arg.keywords:
        h = f.module.functions.get(arg.args[0].id) if hasattr(f.module, "functions") else None
        if h is not None and len(arg.args) - 1 < len(h.params):
            bound = dict(zip(h.params, arg.args[1:]))
            free = [p_ for p_ in h.params if p_ not in bound]
            import copy as _copy

            class _Sub(ast.NodeTransformer):
                def visit_Name(self, n):
                    if n.id in bound and isinstance(n.ctx, ast.Load) and isinstance(bound[n.id], ast.Name):
                        return ast.copy_location(ast.Name(id=bound[n.id].id, ctx=ast.Load()), n)
                    return n
            rets = []
            for n in walk_shallow(h.node):
                if isinstance(n, ast.Return) and n.value is not None:
                    e_ = ast.Expression(body=_copy.deepcopy(n.value, {id(getattr(n.value, "_parent", None)): getattr(n.value, "_parent", None)}))
                    rets.append(_Sub().visit(e_).body)
            return (free[0] if free else None), rets
    return None, None


def filter_semantics(ctx, g: FuncInfo, pname: str):
    """Is function g a keep-filter or a drop-filter w.r.t. its predicate parameter?
    Returns 'keep' / 'drop' / None (not a filter)."""
    sem = set()
    for n in walk_shallow(g.node):
        if isinstance(n, ast.Call) and isinstance(n.func, ast.Name) and n.func.id == "filter" and n.args:
            if isinstance(argn(n, 0), ast.Name) and argn(n, 0).id == pname:
                sem.add("keep")
        if isinstance(n, ast.Call) and fn_name(n) == "filterfalse" and n.args:
            if isinstance(argn(n, 0), ast.Name) and argn(n, 0).id == pname:
                sem.add("drop")
        if isinstance(n, ast.comprehension):
            for cond in n.ifs:
                neg = False
                c = cond
                while isinstance(c, ast.UnaryOp) and isinstance(c.op, ast.Not):
                    neg = not neg
                    c = c.operand
                if isinstance(c, ast.Call) and isinstance(c.func, ast.Name) and c.func.id == pname:
                    sem.add("drop" if neg else "keep")
    if len(sem) == 1:
        return sem.pop()
    if len(sem) > 1:
        raise AnchorError(f"{g.qualname}: predicate {pname} used with both polarities")
    return None


def keepfilter_polarity(ctx, rep, clause, f: FuncInfo, pred_ret_exprs, elem_attr_expr, id_expr, construct, node,
                        semantics="keep"):
    """The entries of ``id`` must be removed and all others kept.

    ``elem_attr_expr``/``id_expr`` are the two sides of the identifying equality
    as they appear inside the predicate (canonical strings)."""
    k = frozenset({elem_attr_expr, id_expr})
    ok = True
    for r in pred_ret_exprs:
        same = eval3(r, {k: True})
        other = eval3(r, {k: False})
        if semantics == "drop":
            same = None if same is None else (not same)
            other = None if other is None else (not other)
        if same is True:
            rep.bad(clause, "keepfilter_polarity", construct, f, node,
                    f"predicate `{U(r)}` is TRUE for the entries of the trial to be removed; a keep-filter "
                    f"therefore keeps them" + (" and drops every other trial's entries" if other is False else ""))
            ok = False
        elif other is False:
            rep.bad(clause, "keepfilter_polarity", construct, f, node,
                    f"predicate `{U(r)}` is FALSE for entries of other trials: they are dropped")
            ok = False
        elif same is None:
            raise AnchorError(f"{construct}: cannot evaluate predicate `{U(r)}` under {elem_attr_expr} == {id_expr}")
    if ok:
        rep.ok(clause, "keepfilter_polarity", construct, f, node,
               f"predicate is false exactly on {elem_attr_expr} == {id_expr}: " + "; ".join(U(r) for r in pred_ret_exprs))
    return ok


def reaches(ctx, f: FuncInfo, target_pred, depth=6, typed_only=True, _seen=None):
    """Call-graph reachability: does f (transitively, over type-resolved edges) contain a call
    for which target_pred(func, call, targets) is true?  Returns the chain or None."""
    # breadth first (a function is expanded at its smallest depth: the answer does not depend on the visiting order)
    from collections import deque
    seen = _seen if _seen is not None else set()
    todo = deque([(f, depth, [])])
    while todo:
        g, d, chain = todo.popleft()
        if g in seen or d < 0:
            continue
        seen.add(g)
        for c, tg in ctx.R.calls(g):
            if target_pred(g, c, tg):
                return chain + [f"{g.short}:{c.lineno}"]
        for c, tg in ctx.R.calls(g):
            for t, h in tg:
                if isinstance(t, FuncInfo) and (h == "type" or not typed_only):
                    todo.append((t, d - 1, chain + [f"{g.short}:{c.lineno}"]))
    return None


def overrides(ctx, base_cls, meth):
    """All definitions of ``meth`` in base_cls and its subclasses."""
    P = ctx.P
    c = P.cls(base_cls) if isinstance(base_cls, str) else base_cls
    out = []
    for k in P.all_subclasses(c, strict=False):
        if meth in k.methods:
            out.append(k.methods[meth])
    return out


def stmt_is_trivial(st):
    """docstring / pass / raise NotImplementedError"""
    if isinstance(st, ast.Pass):
        return True
    if isinstance(st, ast.Expr) and isinstance(st.value, ast.Constant):
        return True
    if isinstance(st, ast.Raise):
        return True
    return False


def is_abstract_or_empty(f: FuncInfo):
    return all(stmt_is_trivial(s) for s in f.node.body)


# ------------------------------------------------------------------ mutation of a container while it is iterated
COPY_WRAPPERS = {"list", "tuple", "sorted", "set", "frozenset", "dict", "copy", "deepcopy", "reversed_copy"}


def _field(e):
    """last attribute / name of an access path (field-based aliasing)."""
    while isinstance(e, ast.Subscript):
        e = e.value
    if isinstance(e, ast.Attribute):
        return e.attr
    if isinstance(e, ast.Name):
        return e.id
    return None


def fields_mutated(ctx, f, depth=3, _seen=None):
    """attribute names whose container is mutated by f or (depth-bounded) by what it calls."""
    from ..core.facts import MUTATORS
    seen = _seen if _seen is not None else {}
    if f in seen:
        return seen[f]
    seen[f] = set()
    out = set()
    for x in walk_shallow(f.node):
        if isinstance(x, ast.Call) and isinstance(x.func, ast.Attribute) and x.func.attr in MUTATORS:
            if isinstance(x.func.value, ast.Attribute):
                out.add(x.func.value.attr)
        if isinstance(x, ast.Delete):
            for t in x.targets:
                if isinstance(t, ast.Subscript) and isinstance(t.value, ast.Attribute):
                    out.add(t.value.attr)
    if depth > 0:
        for c, tg in ctx.R.calls(f):
            cands = [t for t, h in tg if isinstance(t, FuncInfo)]
            if len(cands) > 6:
                continue
            for t in cands:
                out |= fields_mutated(ctx, t, depth - 1, seen)
    seen[f] = out
    return out


def mutation_during_iteration(ctx, f):
    """[(for node, field, culprit text)] loops of f that iterate a live attribute container which the body mutates."""
    out = []
    for st in walk_shallow(f.node):
        if not isinstance(st, ast.For):
            continue
        it = st.iter
        if isinstance(it, ast.Call):
            n = fn_name(it)
            if n in COPY_WRAPPERS:
                continue
            if n in ("enumerate", "reversed", "zip") and it.args:
                it = argn(it, 0)
                if isinstance(it, ast.Call) and fn_name(it) in COPY_WRAPPERS:
                    continue
            elif n in ("items", "keys", "values") and isinstance(it.func, ast.Attribute):
                it = it.func.value
            else:
                continue
        if isinstance(it, ast.Subscript) and isinstance(it.slice, ast.Slice):
            continue  # x[:] is a copy
        if isinstance(it, ast.Name):
            ds = [d for d in _local_defs(f, it.id)]
            if len(ds) == 1 and isinstance(ds[0], (ast.Attribute, ast.Subscript)):
                it = ds[0]
            else:
                continue
        if not isinstance(it, ast.Attribute):
            continue
        fld = it.attr
        body = ast.Module(body=st.body, type_ignores=[])
        from ..core.facts import MUTATORS
        for x in walk_shallow(body):
            if isinstance(x, ast.Call) and isinstance(x.func, ast.Attribute):
                if x.func.attr in MUTATORS and isinstance(x.func.value, ast.Attribute) and x.func.value.attr == fld:
                    # structural mutation of the container itself (element mutation `C[k].update()` is harmless)
                    out.append((st, fld, U(x)[:60]))
                    break
                tg = ctx.call_targets(f, x)
                cands = [t for t, h in tg if isinstance(t, FuncInfo)]
                if 0 < len(cands) <= 6 and any(fld in fields_mutated(ctx, t) for t in cands):
                    out.append((st, fld, U(x)[:60]))
                    break
            if isinstance(x, ast.Delete) and any(isinstance(t, ast.Subscript) and _field(t.value) == fld for t in x.targets):
                out.append((st, fld, U(x)[:60]))
                break
    return out


def _local_defs(f, name):
    from ..engine import local_defs
    return [d for d in local_defs(f, name) if not isinstance(d, tuple)]


# ------------------------------------------------------------------ truthiness used to detect "not given" for a number
def numeric_optional_params(f):
    """parameters of f whose default is None and whose annotation says int / float (0 is a legal value for them)"""
    out = []
    a = f.node.args
    pos = a.posonlyargs + a.args
    defaults = [None] * (len(pos) - len(a.defaults)) + list(a.defaults)
    for p_, d in list(zip(pos, defaults)) + list(zip(a.kwonlyargs, a.kw_defaults)):
        if isinstance(d, ast.Constant) and d.value is None and p_.annotation is not None:
            t = U(p_.annotation).replace(" ", "")
            if t in ("int", "float", "Optional[int]", "Optional[float]", "Union[int,float]", "Optional[Union[int,float]]"):
                out.append(p_.arg)
    return out


def truthiness_uses(f, name):
    """places where `name` is used for its truth value: `name or x`, `name and x`, `if name`, `not name`, `x if name else y`"""
    out = []
    for x in walk_shallow(f.node, include_lambda=True):
        if isinstance(x, ast.BoolOp) and any(isinstance(v, ast.Name) and v.id == name for v in x.values[:-1]):
            out.append(x)
        elif isinstance(x, ast.BoolOp) and isinstance(getattr(x, "_parent", None), (ast.If, ast.IfExp, ast.While)) \
                and any(isinstance(v, ast.Name) and v.id == name for v in x.values):
            out.append(x)
        elif isinstance(x, (ast.If, ast.IfExp, ast.While)) and isinstance(x.test, ast.Name) and x.test.id == name:
            out.append(x)
        elif isinstance(x, ast.UnaryOp) and isinstance(x.op, ast.Not) and isinstance(x.operand, ast.Name) and x.operand.id == name:
            out.append(x)
    return out













# ------------------------------------------------------------------ a value derived once from an attribute that is re-assigned later
STALE_DERIVED_OK = {
    ("DifferentialEvolutionHyperbandScheduler", "_debug_log"): "_suggest swaps self._searcher out and back in within one call; the debug log does not change",
}


def stale_derived_attributes(ctx, cls):
    """[(constructor statement, derived attribute, source attribute, re-assigning method)] a constructor computes self.A from
    self.B, and another method of the class family later assigns self.B without recomputing self.A (e.g. a sign derived from the
    mode, while configure_scheduler sets the mode afterwards): A keeps describing the old B"""
    def stores_of(m):
        out = set()
        for x in walk_shallow(m.node):
            if isinstance(x, (ast.Assign, ast.AugAssign, ast.AnnAssign)):
                for t in (x.targets if isinstance(x, ast.Assign) else [x.target]):
                    if isinstance(t, ast.Attribute) and isinstance(t.value, ast.Name) and t.value.id == "self":
                        out.add(t.attr)
        return out
    ctors = ("__init__", "_create_internal", "_create_internal_common", "__setstate__")
    out = []
    for iname in ctors[:2]:
        init = cls.methods.get(iname)
        if init is None:
            continue
        for x in walk_shallow(init.node):
            if not isinstance(x, ast.Assign):
                continue
            tg = [t.attr for t in x.targets if isinstance(t, ast.Attribute) and isinstance(t.value, ast.Name) and t.value.id == "self"]
            if not tg or (cls.name, tg[0]) in STALE_DERIVED_OK:
                continue
            deps = {y.attr for y in ast.walk(x.value) if isinstance(y, ast.Attribute) and isinstance(y.value, ast.Name) and y.value.id == "self"
                    and isinstance(y.ctx, ast.Load)} - set(tg)
            if not deps:
                continue
            for k in sorted(ctx.family(cls), key=lambda k_: k_.name):
                for m in k.methods.values():
                    if m.name in ctors:
                        continue
                    st = stores_of(m)
                    if (st & deps) and not (set(tg) & st):
                        out.append((x, tg[0], sorted(st & deps)[0], f"{k.name}.{m.name}"))
    return out


# ------------------------------------------------------------------ how elements get into a local list, whatever the spelling
def inclusion_sites(ctx, f, name, _seen=None):
    """[(node, element expression, atoms)] the ways elements enter the local list / set `name`: the element of a comprehension that
    defines it (atoms = its `if` conditions), and `name.append(e)` / `name.add(e)` calls (atoms = the conditions that dominate the
    call inside the function, flags expanded).  The iterated source is in `iter_sources`."""
    from ..engine import local_defs
    out = []
    _seen = _seen or set()
    if name in _seen:
        return out
    _seen.add(name)
    for d in local_defs(f, name):
        if isinstance(d, tuple):
            continue
        if isinstance(d, ast.Name):          # name = other_list: what entered the other list entered this one
            out += inclusion_sites(ctx, f, d.id, _seen)
            continue
        def _outer(d_):          # what dominates the statement the comprehension stands in
            cfg_ = cfg_of(f)
            for n_ in cfg_.nodes:
                if any(y is d_ for y in cfg_.node_walk(n_.id)):
                    return set(dom_guard(ctx, f, n_.id))
            return set()
        if isinstance(d, (ast.ListComp, ast.SetComp, ast.GeneratorExp)):
            at = _outer(d)
            for g in d.generators:
                for c in g.ifs:
                    at |= atoms_of(c, True)
            out.append((d, d.elt, at, [g.iter for g in d.generators]))
        elif isinstance(d, ast.Call) and fn_name(d) in ("list", "set", "sorted", "tuple") and d.args and isinstance(d.args[0], (ast.ListComp, ast.GeneratorExp)):
            c0 = d.args[0]
            at = _outer(d)
            for g in c0.generators:
                for c in g.ifs:
                    at |= atoms_of(c, True)
            out.append((d, c0.elt, at, [g.iter for g in c0.generators]))
    cfg = cfg_of(f)
    for n in cfg.nodes:
        for x in cfg.node_walk(n.id):
            if isinstance(x, ast.Call) and isinstance(x.func, ast.Attribute) and x.func.attr in ("append", "add") and isinstance(x.func.value, ast.Name) \
                    and x.func.value.id == name and x.args:
                loops = [l.ast.iter for l in cfg.nodes if l.kind == "for" and any(y is x for st in l.ast.body for y in ast.walk(st))]
                out.append((x, x.args[0], set(dom_guard(ctx, f, n.id)), loops))
    return out

def body_owner(ctx, f, has):
    """f itself if its body satisfies has(FuncInfo); else the one method of the same object it hands its work to (a single call
    `self._m(...)` in f's body whose callee satisfies has) - e.g. a method that became `return list(self._iter_x(ids))` around a
    generator; else f"""
    if has(f) or f.defining_cls is None:
        return f
    cands = []
    for x in walk_shallow(f.node):
        if isinstance(x, ast.Call) and isinstance(x.func, ast.Attribute) and isinstance(x.func.value, ast.Name) and x.func.value.id == "self":
            m = ctx.P.lookup_method(f.defining_cls, x.func.attr)
            if m is not None and m is not f and has(m):
                cands.append(m)
    return cands[0] if len({id(c) for c in cands}) == 1 else f


def take_over(ctx, rep, fn, clause, only=None):
    """run the clause function `fn(ctx, report)` of another property and take its items over under `clause` (only those it filed under
    `only`, if given).  A refusal of the borrowed clause is recorded like one of an own clause; it does not end the run."""
    from ..core.model import AnchorError
    sub = type(rep)(rep.prop)
    try:
        fn(ctx, sub)
    except AnchorError as e:
        if hasattr(rep, "refused"):
            rep.refused.append((getattr(fn, "__name__", "shared"), str(e)))
        else:
            raise
    for i in sub.items:
        if only is None or i.clause == only:
            i.clause = clause
            rep.items.append(i)


def out_of_order(ctx, f, is_first, is_then, within_iteration=True):
    """[(then node id, first node id)] pairs where a node satisfying is_then(node, cfg) can be followed by one satisfying
    is_first(node, cfg) on a path that does not pass the head of an outermost loop (i.e. inside one iteration / one call): the
    'then' action ran before the 'first' one.  Predicates get (cfg node, cfg)."""
    cfg = cfg_of(f)
    fors = [n for n in cfg.nodes if n.kind == "for"]
    heads = {n.id for n in fors if not any(o is not n and any(y is n.ast for s_ in o.ast.body for y in ast.walk(s_)) for o in fors)} if within_iteration else set()
    firsts = [n for n in cfg.nodes if is_first(n, cfg)]
    thens = [n for n in cfg.nodes if is_then(n, cfg)]
    out = []
    for tn in thens:
        for fn_ in firsts:
            if fn_.id != tn.id and cfg.path([s_ for s_, l_ in cfg.succ[tn.id]], fn_.id, deleted=heads, skip_labels=("exc",)) is not None:
                out.append((tn.id, fn_.id))
    return out, firsts, thens


def node_calls(name, recv_contains=None):
    """predicate (cfg node, cfg) -> the node contains a call of `name` (on a receiver whose text contains recv_contains)"""
    def pred(n, cfg):
        return any(isinstance(x, ast.Call) and fn_name(x) == name and (recv_contains is None or (
            isinstance(x.func, ast.Attribute) and recv_contains in U(x.func.value))) for x in cfg.node_walk(n.id))
    return pred


def same_object(f, name, nid):
    """(other name, other node id) -> bool: `other name` at that node can hold the very object `name` holds on entry to node nid
    (they share a defining expression, plain aliases followed; reaching definitions, not spelling)"""
    from ..engine import origins
    mine = {id(o) if not isinstance(o, str) else o for o in origins(f, name, nid)}

    def test(other, at):
        return bool(mine & {id(o) if not isinstance(o, str) else o for o in origins(f, other, at)})
    return test


def container_mutations(ctx, f, is_container):
    """CFG node ids of f where the container `is_container(expr)` accepts - written out, or through a local that holds it - is
    changed in place or replaced: `del c[..]`, `c[..] = ..`, `c = ..` (for an attribute), `c.<mutator>(..)`"""
    from ..engine import deref
    cfg = cfg_of(f)

    def names_it(e):
        return e is not None and (is_container(e) or (isinstance(e, ast.Name) and is_container(deref(f, e))))
    out = []
    for n in cfg.nodes:
        if n.kind != "stmt":
            continue
        st = n.ast
        hit = False
        if isinstance(st, ast.Delete):
            hit = any(isinstance(t_, ast.Subscript) and names_it(t_.value) for t_ in st.targets)
        elif isinstance(st, (ast.Assign, ast.AugAssign)):
            tg = st.targets if isinstance(st, ast.Assign) else [st.target]
            hit = any((isinstance(t_, ast.Subscript) and names_it(t_.value)) or (isinstance(t_, ast.Attribute) and is_container(t_)) for t_ in tg)
        if not hit:
            hit = any(isinstance(x, ast.Call) and isinstance(x.func, ast.Attribute) and x.func.attr in _MUTATORS and names_it(x.func.value)
                      for x in cfg.node_walk(n.id))
        if hit:
            out.append(n.id)
    return out


def unpacked_field(ctx, f, name):
    """(base expression, field name) when the local `name` is defined once, by unpacking `a, b = <base>` where <base> reads an entry of
    a table `self.<attr>[...]` whose stores (anywhere in the class family) are all constructions of one NamedTuple of the program:
    position i of the unpacking is field i of that record.  None otherwise."""
    from ..engine import local_defs, _RECORDS
    ds = local_defs(f, name)
    if len(ds) != 1 or not (isinstance(ds[0], tuple) and ds[0][0] == "unpack"):
        return None
    base, idx = ds[0][1], ds[0][2]
    tab = base.value if isinstance(base, ast.Subscript) else None
    if not (isinstance(tab, ast.Attribute) and isinstance(tab.value, ast.Name) and tab.value.id == "self"):
        return None
    recs = set()
    for g, n, k in ctx.writers(tab.attr):
        for st in ast.walk(n) if isinstance(n, ast.AST) else []:
            if isinstance(st, ast.Assign) and any(isinstance(t_, ast.Subscript) and isinstance(t_.value, ast.Attribute) and t_.value.attr == tab.attr
                                                  for t_ in st.targets):
                v = st.value
                nm = (v.func.id if isinstance(v.func, ast.Name) else v.func.attr if isinstance(v.func, ast.Attribute) else None) \
                    if isinstance(v, ast.Call) else None
                recs.add(nm if nm in _RECORDS and _RECORDS[nm][1] else None)
    if len(recs) != 1 or None in recs:
        return None
    fields = _RECORDS[next(iter(recs))][0]
    return (base, fields[idx]) if idx < len(fields) else None


def drop_implied(atoms):
    """the atoms without those that follow from another one: `x == Enum.A` true makes `x == Enum.B` false (B another member of the
    same enumeration) - an elif chain over the members adds such atoms without adding a condition"""
    def enum_of(x):
        pre = x.rsplit(".", 1)[0] if "." in x else None
        return pre if pre is not None and pre.split(".")[-1][:1].isupper() and "(" not in x and "[" not in x else None
    pos = {}
    for a in atoms:
        if a[0] == "eq" and a[3] is True:
            for var, const in ((a[1], a[2]), (a[2], a[1])):
                if enum_of(const):
                    pos.setdefault(var, set()).add(const)
    out = set()
    for a in atoms:
        if a[0] == "eq" and a[3] is False:
            implied = False
            for var, const in ((a[1], a[2]), (a[2], a[1])):
                e = enum_of(const)
                if e and any(c != const and enum_of(c) == e for c in pos.get(var, ())):
                    implied = True
            if implied:
                continue
        out.add(a)
    return out


def value_pred(f, pred):
    """text -> bool: the text of an atom's operand stands for a value `pred` accepts - written out, or a local that is defined
    as such a value (so `resource > lur` and `int(result[attr]) > rec.largest_update_resource` read the same)"""
    from ..engine import local_defs

    def test(text):
        try:
            e = ast.parse(text, mode="eval").body
        except SyntaxError:
            return False
        if pred(e):
            return True
        if isinstance(e, ast.Name):
            ds = [d for d in local_defs(f, e.id)]
            return any(not isinstance(d, tuple) and pred(d) for d in ds)       # one of its definitions (a default may replace None)
        return False
    return test


def returned_list_sites(ctx, f, index=None):
    """inclusion sites (see inclusion_sites) of the list the function returns (element `index` of a returned tuple, if given),
    also when the comprehension is returned directly"""
    from ..engine import returns_of
    sites = []
    for r in returns_of(f):
        v = r.value
        if index is not None:
            if not (isinstance(v, ast.Tuple) and len(v.elts) > index):
                continue
            v = v.elts[index]
        if isinstance(v, ast.Name):
            sites += inclusion_sites(ctx, f, v.id)
        elif isinstance(v, (ast.ListComp, ast.SetComp, ast.GeneratorExp)):
            at = set()
            for g in v.generators:
                for c in g.ifs:
                    at |= atoms_of(c, True)
            sites.append((v, v.elt, at, [g.iter for g in v.generators]))
    return sites


def result_sites(ctx, f):
    """[(cfg node, value expression, atoms, inside a loop body?)]: the places that decide what the function returns, whichever way
    it is written - a `return <expr>`, or for `return v` every `v = <expr>` in the function (the result variable idiom).
    atoms = the conditions that dominate the place (flags expanded)."""
    cfg = cfg_of(f)
    loops = [l.ast for l in cfg.nodes if l.kind == "for" or (l.kind == "test" and isinstance(getattr(l, "stmt", None), ast.While))]
    inside = lambda st: any(any(y is st for b in lp.body for y in ast.walk(b)) for lp in loops if hasattr(lp, "body"))
    out, names = [], set()
    for n in cfg.nodes:
        if n.kind == "stmt" and isinstance(n.ast, ast.Return):
            if isinstance(n.ast.value, ast.Name):
                names.add(n.ast.value.id)
            else:
                out.append((n, n.ast.value if n.ast.value is not None else ast.Constant(value=None), set(dom_guard(ctx, f, n.id)), inside(n.ast)))
    for n in cfg.nodes:
        if n.kind == "stmt" and isinstance(n.ast, ast.Assign) and len(n.ast.targets) == 1 and isinstance(n.ast.targets[0], ast.Name) \
                and n.ast.targets[0].id in names:
            out.append((n, n.ast.value, set(dom_guard(ctx, f, n.id)), inside(n.ast)))
    return out


# ------------------------------------------------------------------ paths that respect what a branch edge established
def consistent_with(cond, truth):
    """edge_ok for CFG.path: given that `cond` evaluated to `truth` at the start (e.g. decision == SchedulerDecision.STOP), reject
    later branch edges that contradict it: the same expression compared equal to another member of the same enumeration, or
    compared unequal to the same member.  (The expression is assumed not to be re-assigned on the way - the callers use it for
    a loop-local decision / status variable between its test and the end of the iteration.)"""
    facts = [a for a in atoms_of(cond, truth) if a[0] == "eq" and a[3] is True]

    def enum_of(x):
        pre = x.rsplit(".", 1)[0] if "." in x else None        # Status.failed, SchedulerDecision.STOP: <ClassName>.<member>
        return pre if pre is not None and pre.split(".")[-1][:1].isupper() and "(" not in x and "[" not in x else None

    def ok(label):
        if not (isinstance(label, tuple) and label[0] == "cond"):
            return True
        for b in atoms_of(label[1], label[2]):
            if b[0] != "eq":
                continue
            for a in facts:
                for var, const in ((a[1], a[2]), (a[2], a[1])):
                    if enum_of(const) is None or enum_of(var) is not None:
                        continue
                    for v2, c2 in ((b[1], b[2]), (b[2], b[1])):
                        if v2 != var or enum_of(c2) != enum_of(const):
                            continue
                        if (b[3] is True and c2 != const) or (b[3] is False and c2 == const):
                            return False
        return True
    return ok

# ------------------------------------------------------------------ a class-level container that instances grow in place
def shared_class_level_containers(ctx, cls):
    """[(class-body statement, attribute)] a list / dict / set created once in the class body and modified in place through
    `self.<attr>` by a method of the class family, without every instance getting its own in a constructor: all instances
    (all schedulers, all experiments of the process) write into the one object"""
    out = []
    for st in cls.node.body:
        tgt = st.target if isinstance(st, ast.AnnAssign) else (st.targets[0] if isinstance(st, ast.Assign) and len(st.targets) == 1 else None)
        val = getattr(st, "value", None)
        if not isinstance(tgt, ast.Name) or val is None:
            continue
        fresh = isinstance(val, (ast.List, ast.Dict, ast.Set, ast.ListComp, ast.DictComp, ast.SetComp)) or (
            isinstance(val, ast.Call) and fn_name(val) in ("list", "dict", "set", "deque", "defaultdict", "OrderedDict", "Counter"))
        if not fresh:
            continue
        name = tgt.id
        mutated = assigned = False
        for k in ctx.family(cls):
            for m in k.methods.values():
                for x in walk_shallow(m.node):
                    if isinstance(x, ast.Call) and isinstance(x.func, ast.Attribute) and x.func.attr in _MUTATORS and U(x.func.value) == f"self.{name}":
                        mutated = True
                    if isinstance(x, (ast.Assign, ast.AugAssign, ast.Delete)):
                        for t in (x.targets if not isinstance(x, ast.AugAssign) else [x.target]):
                            if isinstance(t, ast.Subscript) and U(t.value) == f"self.{name}":
                                mutated = True
                            if isinstance(x, ast.AugAssign) and U(t) == f"self.{name}":
                                mutated = True
                            if isinstance(x, ast.Assign) and U(t) == f"self.{name}" and m.name in ("__init__", "__setstate__") or (
                                    isinstance(x, ast.Assign) and U(t) == f"self.{name}" and m.name.startswith("_create_internal")):
                                assigned = True
        if mutated and not assigned:
            out.append((st, name))
    return out

# ------------------------------------------------------------------ an option taken out of **kwargs before they are forwarded
def consumed_before_forwarding(f):
    """[(pop node, key, forwarding call)] `kwargs.pop("k")` / `del kwargs["k"]` followed by a call that forwards `**kwargs` without
    passing k explicitly: the component behind that call no longer gets the option and falls back to its default"""
    kw = f.node.args.kwarg.arg if f.node.args.kwarg is not None else None
    if kw is None:
        return []
    taken = [(x, x.args[0].value) for x in walk_shallow(f.node) if isinstance(x, ast.Call) and fn_name(x) == "pop" and isinstance(x.func, ast.Attribute)
             and U(x.func.value) == kw and x.args and isinstance(x.args[0], ast.Constant)]
    taken += [(x, x.targets[0].slice.value) for x in walk_shallow(f.node) if isinstance(x, ast.Delete) and isinstance(x.targets[0], ast.Subscript)
              and U(x.targets[0].value) == kw and isinstance(x.targets[0].slice, ast.Constant)]
    out = []
    for px, key in taken:
        for c in walk_shallow(f.node):
            if isinstance(c, ast.Call) and any(k_.arg is None and U(k_.value) == kw for k_ in c.keywords) and c.lineno > px.lineno and kwarg(c, key) is None:
                out.append((px, key, c))
    return out

# ------------------------------------------------------------------ an experiment-wide option that is not handed on
PLUMBED_OPTIONS = ("mode", "metric", "resource_attr", "max_t", "cost_attr", "random_seed", "config_space", "reduction_factor", "grace_period",
                   "elapsed_time_attr", "max_resource_attr", "seed", "random_state", "allow_duplicates", "points_to_evaluate")
PLUMBING_OK = {
    ("RandomSearcher.clone_from_state", "RandomSearcher", "resource_attr"): "the clone learns the resource attribute from configure_scheduler, like the original",
}


def omitted_options(f):
    """[(call, option)] a call of one of the program's functions / classes that has a parameter named like an experiment-wide
    option (mode, metric, resource attribute, seed, ...), made where that option is at hand (a parameter of the caller, or
    self.<option> / self._<option>), that does not pass it: the callee silently works with its default"""
    from ..engine import _SIG
    out = []
    avail = set()
    for name in PLUMBED_OPTIONS:
        if name in f.params or any(isinstance(x, ast.Attribute) and x.attr in (name, "_" + name) and isinstance(x.value, ast.Name) and x.value.id == "self"
                                   for x in ast.walk(f.node)):
            avail.add(name)
    if not avail:
        return out
    for x in walk_shallow(f.node, include_lambda=True):
        if not isinstance(x, ast.Call) or any(k_.arg is None for k_ in x.keywords) or any(isinstance(a, ast.Starred) for a in x.args):
            continue
        sigs = _SIG.get(fn_name(x)) or set()
        for name in sorted(avail):
            if not sigs or not all(name in s_ for s_ in sigs):
                continue
            pos = {s_.index(name) for s_ in sigs}
            given = kwarg(x, name) is not None or (len(pos) == 1 and len(x.args) > next(iter(pos)))
            if not given and (f.short, fn_name(x), name) not in PLUMBING_OK:
                out.append((x, name))
    return out

# ------------------------------------------------------------------ a constructor that modifies a container the caller owns
_MUTATORS = {"update", "append", "extend", "pop", "setdefault", "clear", "remove", "insert", "add", "discard", "sort", "reverse", "popitem"}
CALLER_MUTATION_OK = {
    ("PopulationBasedTraining", "__init__", "search_options"): "removes an unsupported key (with a warning) from the options it was given; nothing of the scheduler leaks into them",
}


def caller_container_mutations(f):
    """[(statement, variable)] in a constructor-like method (__init__, _create_internal*, configure_scheduler): a local that is
    (an alias of) a parameter, `kwargs[...]`, `kwargs.get(...)` or `dict_get(kwargs, ...)` - not a copy - is modified in
    place.  What the constructor writes (its seed generator, metric names, a back reference to itself) then lives in the
    caller's dictionary and reaches whatever the caller builds from it next."""
    if f.name not in ("__init__", "configure_scheduler") and not f.name.startswith("_create_internal"):
        return []
    ps = set(f.params) - {"self", "cls"}
    kw = f.node.args.kwarg.arg if f.node.args.kwarg is not None else None

    def is_copy(e):
        return isinstance(e, ast.Call) and fn_name(e) in ("copy", "deepcopy", "dict", "list", "set", "sorted", "filter_by_key", "check_and_merge_defaults")

    def from_caller(e, depth=3):
        if isinstance(e, ast.Name):
            ds = [d for d in local_defs(f, e.id) if not isinstance(d, tuple)]
            if e.id in ps and not ds:
                return e.id != kw
            return depth > 0 and bool(ds) and not any(is_copy(d) or isinstance(d, (ast.Dict, ast.List, ast.Set, ast.DictComp, ast.ListComp)) for d in ds) \
                and any(from_caller(d, depth - 1) for d in ds)
        if isinstance(e, ast.Subscript):
            return isinstance(e.value, ast.Name) and e.value.id in ps
        if isinstance(e, ast.Call) and fn_name(e) in ("get", "pop") and isinstance(e.func, ast.Attribute) and isinstance(e.func.value, ast.Name) and e.func.value.id in ps:
            return True
        if isinstance(e, ast.Call) and fn_name(e) == "dict_get" and e.args and isinstance(e.args[0], ast.Name) and e.args[0].id in ps:
            return True
        if isinstance(e, ast.IfExp):
            return from_caller(e.body, depth) or from_caller(e.orelse, depth)
        return False
    def origin(e, depth=3):
        """what the caller knows the container as: the parameter name, or the key it was looked up under"""
        if isinstance(e, ast.Name):
            ds = [d for d in local_defs(f, e.id) if not isinstance(d, tuple)]
            if e.id in ps and not ds:
                return e.id
            for d in ds:
                o = origin(d, depth - 1) if depth > 0 else None
                if o is not None:
                    return o
            return None
        if isinstance(e, ast.Subscript) and isinstance(e.slice, ast.Constant):
            return e.slice.value
        if isinstance(e, ast.Call) and fn_name(e) in ("get", "pop") and e.args and isinstance(e.args[0], ast.Constant):
            return e.args[0].value
        if isinstance(e, ast.Call) and fn_name(e) == "dict_get" and len(e.args) > 1 and isinstance(e.args[1], ast.Constant):
            return e.args[1].value
        return None
    out = []
    for x in walk_shallow(f.node):
        tgt = None
        if isinstance(x, ast.Call) and isinstance(x.func, ast.Attribute) and x.func.attr in _MUTATORS and isinstance(x.func.value, ast.Name):
            tgt = x.func.value
        elif isinstance(x, (ast.Assign, ast.Delete)) and isinstance(x.targets[0], ast.Subscript) and isinstance(x.targets[0].value, ast.Name):
            tgt = x.targets[0].value
        if tgt is None or tgt.id in ("self", kw):
            continue
        if from_caller(tgt) and (f.cls.name if f.cls else "", f.name, origin(tgt)) not in CALLER_MUTATION_OK:
            out.append((x, tgt.id))
    return out

# ------------------------------------------------------------------ an attribute that is written and read by nobody
WRITE_ONLY_OK = {
    # (class, attribute): reason
    ("PopulationBasedTraining", "_population_size"): "constructor argument kept for reference, not used by the algorithm",
    ("PopulationBasedTraining", "_next_perturbation_sync"): "left over from the synchronous variant, unused",
    ("PopulationBasedTraining", "_num_checkpoints"): "statistics counter",
    ("PopulationBasedTraining", "_num_perturbations"): "statistics counter",
    ("MOASHA", "_num_stopped"): "statistics counter",
    ("DifferentialEvolutionHyperbandScheduler", "num_selection_skipped"): "public statistics counter",
}
_ATTR_LOADS = {}


def _attribute_loads(P):
    key = id(P)
    if key not in _ATTR_LOADS:
        _ATTR_LOADS.clear()
        names = set()
        for m in P.modules.values():
            for x in ast.walk(m.tree):
                if isinstance(x, ast.Attribute) and isinstance(x.ctx, ast.Load):
                    names.add(x.attr)
                elif isinstance(x, ast.Call) and isinstance(x.func, ast.Name) and x.func.id in ("getattr", "hasattr") and len(x.args) >= 2 \
                        and isinstance(x.args[1], ast.Constant) and isinstance(x.args[1].value, str):
                    names.add(x.args[1].value)
        _ATTR_LOADS[key] = names
    return _ATTR_LOADS[key]


def write_only_attributes(ctx, f):
    """[(store node, attribute)] `self.X = ...` where no code of the program ever reads an attribute X (of any object) nor names
    it in a string: the value is parked where its reader does not look - typically the reader uses another spelling
    (`_x` / `x`), so it keeps seeing a default"""
    if f.cls is None:
        return []
    loads = _attribute_loads(ctx.P)
    fam = _family_self_loads(ctx, f.cls)
    out = []
    for x in walk_shallow(f.node):
        if isinstance(x, ast.Attribute) and isinstance(x.ctx, ast.Store) and isinstance(x.value, ast.Name) and x.value.id == "self" \
                and (f.cls.name, x.attr) not in WRITE_ONLY_OK:
            twin = x.attr[1:] if x.attr.startswith("_") else "_" + x.attr
            if x.attr not in loads or (x.attr not in fam and twin in fam):
                out.append((x, x.attr))
    return out


_FAM_LOADS = {}


def _family_self_loads(ctx, cls):
    """attribute names read as `self.X` (or through getattr(self, 'X')) anywhere in cls, its base classes and its subclasses"""
    key = (id(ctx.P), cls.name)
    if key not in _FAM_LOADS:
        names = set()
        for k in ctx.family(cls):
            for x in ast.walk(k.node):
                if isinstance(x, ast.Attribute) and isinstance(x.ctx, ast.Load) and isinstance(x.value, ast.Name) and x.value.id == "self":
                    names.add(x.attr)
                if isinstance(x, ast.AugAssign) and isinstance(x.target, ast.Attribute) and isinstance(x.target.value, ast.Name) and x.target.value.id == "self":
                    names.add(x.target.attr)
        _FAM_LOADS[key] = names
    return _FAM_LOADS[key]

# ------------------------------------------------------------------ a parameter that is accepted and then ignored
UNUSED_PARAM_OK = {
    # (function, parameter): reason
    ("_update_searcher_internal", "config"): "kept for the signature; the function only removes the previously reported case",
    ("_update_searcher_internal", "result"): "kept for the signature; the function only removes the previously reported case",
    ("AddJitterOp_vjp", "*"): "signature prescribed by autograd's defvjp",
    ("cholesky_factorization_vjp", "*"): "signature prescribed by autograd's defvjp",
}


def ignored_parameters(ctx, f):
    """[parameter] of a constructor, or of a function / method that overrides nothing and is overridden by nothing, that the
    body never reads: a value the caller supplies (a mode, a seed, the number of brackets, ...) is dropped on the floor and a
    default takes its place further down.  Interface methods are exempt - they must accept what the protocol passes."""
    if f.parent is not None:
        return []
    a = f.node.args
    ps = [x.arg for x in a.posonlyargs + a.args + a.kwonlyargs if x.arg not in ("self", "cls")]
    body = [s_ for s_ in f.node.body if not (isinstance(s_, ast.Expr) and isinstance(s_.value, ast.Constant))]
    if not ps or not body or all(isinstance(s_, (ast.Pass, ast.Raise)) for s_ in body):
        return []
    if len(body) == 1 and isinstance(body[0], ast.Return) and (body[0].value is None or isinstance(body[0].value, ast.Constant)):
        return []
    if f.name != "__init__" and f.cls is not None and any(k is not f.cls and f.name in k.methods for k in ctx.family(f.cls)):
        return []
    if any(isinstance(d, ast.Name) and d.id in ("abstractmethod", "staticmethod", "property") for d in f.node.decorator_list) and f.name != "__init__":
        pass
    loads = {x.id for x in ast.walk(f.node) if isinstance(x, ast.Name) and isinstance(x.ctx, ast.Load)}
    return [p_ for p_ in ps if p_ not in loads and (f.name, p_) not in UNUSED_PARAM_OK and (f.name, "*") not in UNUSED_PARAM_OK]

# ------------------------------------------------------------------ an override that no longer runs the base implementation
CHAINED_METHODS = ("__init__", "configure_scheduler", "_restore_from_state", "get_state", "on_trial_error", "on_tuning_start", "on_tuning_end",
                   "__setstate__", "__getstate__")
NO_SUPER_OK = {
    ("DynamicHPOSearcher", "configure_scheduler"): "a wrapper: configures the internal searcher it delegates to",
    ("DynamicHPOSearcher", "_restore_from_state"): "a wrapper: state is kept by the internal searcher",
    ("DynamicHPOSearcher", "get_state"): "a wrapper: state is kept by the internal searcher",
    ("NoOptimization", "__init__"): "deliberately sets nothing up (its optimize() returns the candidate unchanged and reads no attribute)",
}


def overrides_without_base_call(ctx, cls):
    """[(method, base method)] overrides of the chained protocol methods (constructors, configure_scheduler, state save /
    restore, tuning start / end) that do not call the next implementation in the MRO on every normal path, although that
    implementation does something"""
    P = ctx.P
    out = []
    for mname in CHAINED_METHODS:
        m = cls.methods.get(mname)
        if m is None or (cls.name, mname) in NO_SUPER_OK:
            continue
        nxt = P.lookup_method(cls, mname, after=cls)
        if nxt is None or nxt.cls is None:
            continue
        body = [s_ for s_ in nxt.node.body if not (isinstance(s_, ast.Expr) and isinstance(s_.value, ast.Constant))]
        if not body or all(isinstance(s_, (ast.Pass, ast.Raise)) for s_ in body):
            continue
        cm = cfg_of(m)
        sup = {nd.id for nd in cm.nodes for x in cm.node_walk(nd.id) if isinstance(x, ast.Call) and fn_name(x) == mname and isinstance(x.func, ast.Attribute) and (
            (isinstance(x.func.value, ast.Call) and fn_name(x.func.value) == "super") or
            (isinstance(x.func.value, ast.Name) and x.func.value.id[:1].isupper()))}
        if not sup or cm.path([cm.entry], cm.exit, deleted=sup, skip_labels=("exc",)) is not None:
            out.append((m, nxt))
    return out


def bypassed_base_calls(ctx, cls):
    """[(method, call)] a `super().m(...)` statement of the override m that is skipped by a bare `return`: the call is a top-level
    statement with an early `return` in front of it, or - the same thing in nested form - it heads the other branch of an `if` whose
    first branch is nothing but `return`.  (A base call under a condition whose other branch does something else, or simply falls
    through, is a deliberate conditional call and is not reported.)"""
    def is_super_stmt(st, mname):
        if isinstance(st, (ast.Expr, ast.Assign, ast.AnnAssign, ast.Return)) and getattr(st, "value", None) is not None:
            for x in ast.walk(st.value):
                if isinstance(x, ast.Call) and fn_name(x) == mname and isinstance(x.func, ast.Attribute) and isinstance(x.func.value, ast.Call) \
                        and fn_name(x.func.value) == "super":
                    return x
        return None

    def bare_return(body):
        return len(body) == 1 and isinstance(body[0], ast.Return) and (body[0].value is None or (isinstance(body[0].value, ast.Constant) and body[0].value.value is None))
    out = []
    for mname, m in cls.methods.items():
        hit = None

        def scan(body, guarded_by_bail):
            nonlocal hit
            bailed = guarded_by_bail
            for st in body:
                c = is_super_stmt(st, mname)
                if c is not None and bailed:
                    hit = hit or c
                if isinstance(st, ast.If):
                    if bare_return(st.body):
                        scan(st.orelse, True)
                        bailed = True       # what follows the `if` is reached only past the bail-out too
                    elif bare_return(st.orelse):
                        scan(st.body, True)
                        bailed = True
        scan(m.node.body, False)
        if hit is not None:
            out.append((m, hit))
    return out


# ------------------------------------------------------------------ an argument that names another parameter of its callee
ARG_NAME_OK = {
    # (function, callee, parameter it is passed for): reason
    ("list_experiments", "load_experiment", "download_if_not_found"):
        "a genuine slip of the repository outside the 20 properties: `load_tuner` is passed where `download_if_not_found` is expected "
        "(the tuner is never loaded by list_experiments; results, metadata and best_config are not affected)",
}


def argument_name_mismatches(f):
    """[(call, parameter, argument text)] a call of one of the program's own functions whose argument is a variable / attribute
    named like ANOTHER parameter of that callee (`mode=metric`, or positionally `f(b, a)` for `def f(a, b)`): two values of
    the same type changed places, which no test of a single configuration notices"""
    from ..engine import _SIG
    out = []
    for x in walk_shallow(f.node, include_lambda=True):
        if not isinstance(x, ast.Call) or any(isinstance(a, ast.Starred) for a in x.args):
            continue
        sigs = _SIG.get(fn_name(x)) or set()
        if not sigs:
            continue

        def nm(a):
            last = a.id if isinstance(a, ast.Name) else (a.attr if isinstance(a, ast.Attribute) else None)
            return last.lstrip("_") if last else None
        if len(sigs) == 1:
            ps = [p.lstrip("_") for p in next(iter(sigs))]
            for i, a in enumerate(x.args[:len(ps)]):
                if nm(a) is not None and nm(a) != ps[i] and nm(a) in ps:
                    out.append((x, next(iter(sigs))[i], U(a)))
        allp = {p.lstrip("_") for s_ in sigs for p in s_}
        for kw_ in x.keywords:
            if kw_.arg and nm(kw_.value) is not None and kw_.arg.lstrip("_") in allp and nm(kw_.value) in allp and nm(kw_.value) != kw_.arg.lstrip("_"):
                out.append((x, kw_.arg, U(kw_.value)))
    return out

# ------------------------------------------------------------------ a looked-up number defaulted by `or`
_NUMF = {"min", "max", "abs", "float", "int", "round", "sum", "maximum", "minimum", "sqrt", "log", "exp"}


def numeric_lookup_or_default(f):
    """[BoolOp] `d.get(k) or default` / `getattr(o, n, None) or default` used as a number (argument of min / max / ..., operand
    of arithmetic or of an order comparison, or with a numeric default): a stored 0 / 0.0 is replaced by the default"""
    def lookup(e):
        if isinstance(e, ast.Call) and isinstance(e.func, ast.Attribute) and e.func.attr in ("get", "pop"):
            return len(e.args) == 1 or (len(e.args) == 2 and isinstance(argn(e, 1), ast.Constant) and argn(e, 1).value is None)
        if isinstance(e, ast.Call) and isinstance(e.func, ast.Name) and e.func.id == "getattr":
            return len(e.args) == 3 and isinstance(argn(e, 2), ast.Constant) and argn(e, 2).value is None
        return False

    def numeric_ctx(x):
        p = getattr(x, "_parent", None)
        if isinstance(p, ast.Call) and fn_name(p) in _NUMF and x in p.args:
            return True
        if isinstance(p, ast.BinOp) and isinstance(p.op, (ast.Add, ast.Sub, ast.Mult, ast.Div, ast.FloorDiv, ast.Pow, ast.Mod)):
            return True
        if isinstance(p, ast.Compare) and any(isinstance(o, (ast.Lt, ast.LtE, ast.Gt, ast.GtE)) for o in p.ops):
            return True
        if isinstance(p, ast.UnaryOp) and isinstance(p.op, ast.USub):
            return True
        d = x.values[-1]
        if isinstance(d, ast.UnaryOp):
            d = d.operand
        return (isinstance(d, ast.Constant) and isinstance(d.value, (int, float)) and not isinstance(d.value, bool)) or \
            U(d).split(".")[-1] in ("inf", "np_inf", "nan")
    return [x for x in walk_shallow(f.node, include_lambda=True)
            if isinstance(x, ast.BoolOp) and isinstance(x.op, ast.Or) and any(lookup(v) for v in x.values[:-1]) and numeric_ctx(x)]

# ------------------------------------------------------------------ deleting list positions in ascending order
def ascending_index_deletion(ctx, f):
    """[(for node, text)] loops `for i in <ascending positions of L>: del L[i]` (or L.pop(i)): every deletion shifts the
    later positions, so the wrong elements go (or IndexError) as soon as two positions are deleted."""
    from ..engine import deref
    out = []

    def base(e):
        e = deref(f, e)
        return U(e)
    for st in walk_shallow(f.node):
        if not (isinstance(st, ast.For) and isinstance(st.target, ast.Name)):
            continue
        it = st.iter
        if isinstance(it, ast.Call) and fn_name(it) == "reversed":
            continue
        if isinstance(it, ast.Call) and fn_name(it) == "sorted" and kwarg(it, "reverse") is not None and U(kwarg(it, "reverse")) == "True":
            continue
        src = deref(f, it)
        seqs = set()
        # positions taken from enumerate(L) / range(len(L)) in their natural (ascending) order
        for y in ast.walk(src):
            if isinstance(y, ast.Call) and fn_name(y) == "enumerate" and y.args:
                seqs.add(base(argn(y, 0)))
            if isinstance(y, ast.Call) and fn_name(y) == "range" and y.args and isinstance(y.args[-1 if len(y.args) < 3 else 1], ast.Call) \
                    and fn_name(y.args[-1 if len(y.args) < 3 else 1]) == "len" and len(y.args) < 3:
                seqs.add(base(argn(y.args[-1], 0)))
        if isinstance(src, ast.Call) and fn_name(src) in ("reversed",):
            continue
        if isinstance(src, ast.Call) and fn_name(src) == "sorted" and kwarg(src, "reverse") is not None and U(kwarg(src, "reverse")) == "True":
            continue
        if isinstance(src, ast.Subscript) and isinstance(src.slice, ast.Slice) and src.slice.step is not None and U(src.slice.step) == "-1":
            continue
        if not seqs:
            continue
        body = ast.Module(body=st.body, type_ignores=[])
        for x in walk_shallow(body):
            tgt = None
            if isinstance(x, ast.Delete):
                for t in x.targets:
                    if isinstance(t, ast.Subscript) and U(t.slice) == st.target.id:
                        tgt = t.value
            if isinstance(x, ast.Call) and isinstance(x.func, ast.Attribute) and x.func.attr == "pop" and x.args and U(argn(x, 0)) == st.target.id:
                tgt = x.func.value
            if tgt is not None and base(tgt) in seqs:
                out.append((st, U(x)[:60]))
    return out


# ------------------------------------------------------------------ running maximum / minimum that forgets its history
def broken_accumulators(ctx, f):
    """[(assign node, text)] inside a loop: `v = max(a, b)` / `min(a, b)` where v is initialised before the loop and read
    after it, but v itself is not among the arguments - the value after the loop depends on the last iteration only."""
    out = []
    for lp in walk_shallow(f.node):
        if not isinstance(lp, (ast.For, ast.While)):
            continue
        body = ast.Module(body=lp.body, type_ignores=[])
        for st in walk_shallow(body):
            if not (isinstance(st, ast.Assign) and len(st.targets) == 1 and isinstance(st.targets[0], ast.Name)
                    and isinstance(st.value, ast.Call) and fn_name(st.value) in ("max", "min", "maximum", "minimum") and len(st.value.args) == 2):
                continue
            v = st.targets[0].id
            if any(isinstance(y, ast.Name) and y.id == v for a in st.value.args for y in ast.walk(a)):
                continue
            init_before = any(isinstance(x, ast.Assign) and any(isinstance(t, ast.Name) and t.id == v for t in x.targets)
                              and x.lineno < lp.lineno for x in walk_shallow(f.node))
            used_after = any(isinstance(x, ast.Name) and x.id == v and isinstance(x.ctx, ast.Load) and x.lineno > getattr(lp, "end_lineno", lp.lineno)
                             for x in walk_shallow(f.node))
            if init_before and used_after:
                out.append((st, U(st)[:70]))
    return out


# ------------------------------------------------------------------ nullness of a local at a sink
def maybe_none_reaches(ctx, f, var, sink_ids):
    """definitions of `var` that may be None (`d.get(k[, default])` - a key that is present with value None yields None
    whatever the default -, a bare None, a parameter whose default is None) and reach one of the sink nodes without a
    redefinition and without passing a branch edge that establishes `var is not None`.  Returns [(def node, path)]."""
    from ..core.facts import atoms_of
    cfg = cfg_of(f)

    def maybe_none(e):
        if isinstance(e, ast.Constant) and e.value is None:
            return True
        if isinstance(e, ast.Call) and isinstance(e.func, ast.Attribute) and e.func.attr in ("get", "pop") and 1 <= len(e.args) <= 2:
            return True
        return False
    defs_all = {n.id for n in cfg.nodes if n.kind == "stmt" and isinstance(n.ast, (ast.Assign, ast.AnnAssign, ast.AugAssign))
                and any(isinstance(t, ast.Name) and t.id == var for tt in (n.ast.targets if isinstance(n.ast, ast.Assign) else [n.ast.target])
                        for t in ast.walk(tt))}
    out = []

    def edge_ok(label):
        if isinstance(label, tuple) and label[0] == "cond":
            return ("is", var, "None", False) not in atoms_of(label[1], label[2])
        return label != "exc"
    starts = []
    for n in cfg.nodes:
        if n.id in defs_all and isinstance(n.ast, ast.Assign) and len(n.ast.targets) == 1 and isinstance(n.ast.targets[0], ast.Name) and maybe_none(n.ast.value):
            starts.append(n.id)
    p_ = f.param_node(var) if hasattr(f, "param_node") else None
    if p_ is not None and isinstance(f.param_default(var), ast.Constant) and f.param_default(var).value is None:
        starts.append(cfg.entry)
    for d in starts:
        nxt = [s_ for s_, l in cfg.succ[d] if edge_ok(l)]
        p = cfg.path(nxt, set(sink_ids), deleted=defs_all - set(sink_ids), edge_ok=edge_ok) if nxt else None
        if any(x in sink_ids for x in nxt):
            p = p or [d]
        if p is not None:
            out.append((cfg.nodes[d].ast if d != cfg.entry else None, p))
    return out


# ------------------------------------------------------------------ guard tables: the conditions a key action is taken under
def dom_guard(ctx, f, nid):
    """atoms of the branch conditions every path to CFG node nid takes; a test on a local flag with one definition is
    expanded through that definition"""
    from ..engine import dominating_edges, local_defs
    from ..core.facts import atoms_of
    cfg = cfg_of(f)
    out = set()
    for (_, c, t) in dominating_edges(cfg, nid):
        out |= atoms_of(c, t)
    exp = set()
    for a in out:
        if a[0] == "truth" and a[1].isidentifier():
            ds = [d for d in local_defs(f, a[1]) if not isinstance(d, tuple)]
            if len(ds) == 1:
                exp |= atoms_of(ds[0], a[2])
                continue
        exp.add(a)
    exp = exp | derived_membership(f, exp)
    exp = exp | witness_atoms(ctx, f, exp)
    return exp | narrowed_types(exp)


def narrowed_types(atoms):
    """isinstance(x, (A, B)) true and isinstance(x, A) false  gives  isinstance(x, B) true  (the else-arm of a type dispatch that was
    validated up front)"""
    out = set()
    for a in atoms:
        if a[0] == "isinstance" and a[3] is True and a[2].startswith("(") and a[2].endswith(")"):
            alts = [s_.strip() for s_ in a[2][1:-1].split(",") if s_.strip()]
            left = [t_ for t_ in alts if ("isinstance", a[1], t_, False) not in atoms]
            if len(left) == 1 and len(alts) > 1:
                out.add(("isinstance", a[1], left[0], True))
    return out


def witness_atoms(ctx, f, atoms, _depth=0):
    """`w is not None` where w is a witness variable - None by default, given a value at exactly one place, and the loop around that
    place is left at once (break directly after it): the conditions that dominate that place held when w got its value, and the loop's
    variables have kept theirs.  Those atoms are returned (the first-match idiom: `w = next((x for x in xs if c(x)), None)`)."""
    from ..engine import dominating_edges
    from ..core.facts import atoms_of
    out = set()
    cfg = cfg_of(f)
    for a in atoms:
        # the default: None, or a sentinel object held in a local (`nothing = object()`)
        if not (a[0] == "is" and a[3] is False and a[1].isidentifier() and (a[2] == "None" or a[2].isidentifier())):
            continue
        sites = [n for n in cfg.nodes if n.kind == "stmt" and isinstance(n.ast, ast.Assign) and len(n.ast.targets) == 1
                 and isinstance(n.ast.targets[0], ast.Name) and n.ast.targets[0].id == a[1]]
        live = [n for n in sites if U(n.ast.value) != a[2]]
        if len(live) != 1 or len(sites) < 2:
            continue
        nxt = [s_ for s_, l_ in cfg.succ[live[0].id] if not (isinstance(l_, str) and l_ == "exc")]
        if len(nxt) != 1 or not (cfg.nodes[nxt[0]].kind == "stmt" and isinstance(cfg.nodes[nxt[0]].ast, ast.Break)):
            continue
        for (_, c, t) in dominating_edges(cfg, live[0].id):
            out |= atoms_of(c, t)
    return out


def derived_membership(f, atoms):
    """`x = d.get(k)` ... `x is not None`  says  `k in d`  (the idiom for a table whose values are never None): the membership
    atom is added next to the None test, so that a guard can be written either way"""
    from ..engine import local_defs
    out = set()
    for a in atoms:
        if a[0] == "is" and a[2] == "None" and a[1].isidentifier():
            ds = [d for d in local_defs(f, a[1]) if not isinstance(d, tuple)]
            if len(ds) == 1 and isinstance(ds[0], ast.Call) and isinstance(ds[0].func, ast.Attribute) and ds[0].func.attr == "get" and len(ds[0].args) == 1 \
                    and not ds[0].keywords:
                out.add(("in", U(ds[0].args[0]), U(ds[0].func.value), not a[3]))
    return out


def call_nodes(ctx, f, pred):
    """[(node id, call)] of the calls in f that satisfy pred(call)"""
    cfg = cfg_of(f)
    return [(n.id, x) for n in cfg.nodes for x in cfg.node_walk(n.id) if isinstance(x, ast.Call) and pred(x)]


def require_guard(ctx, rep, clause, f, construct, nids, required, why, node=None):
    """every node of nids is dominated by atoms matching each (label, predicate) of `required`"""
    if not nids:
        raise AnchorError(f"{construct}: action not found in {f.short}")
    missing = []
    for nid in nids:
        at = dom_guard(ctx, f, nid)
        for label, pred in required:
            if not any(pred(a) for a in at):
                missing.append(label)
    rep.put(not missing, clause, "guarded_by", construct, f, node, "guard: " + " and ".join(l for l, _ in required),
            f"not taken exactly under `{' and '.join(sorted(set(missing)))}`: {why}")
    return not missing


def eq_atom(x, y, truth=True):
    """predicate for the atom x == y (either order) with the given truth"""
    return lambda a: a[0] == "eq" and a[3] is truth and {a[1].split(".")[-1] if False else a[1], a[2]} == {x, y}


# ------------------------------------------------------------------ a computed value that is bound to a local and never used
def dead_local_stores(ctx, f):
    """[(assign node, name)] `name = <call>` where no path from the assignment reads `name` before the function ends or the
    name is rebound: the update was applied to a local instead of the object it was meant for.  Setting attributes of the
    object (`name.attr = ...`) is not a read: an object that is built, modified and handed to nobody is dropped all the same."""
    cfg = cfg_of(f)
    out = []
    nested_reads = set()
    for g in f.nested.values():
        for y in ast.walk(g.node):
            if isinstance(y, ast.Name):
                nested_reads.add(y.id)
    for y in walk_shallow(f.node, include_lambda=True):
        if isinstance(y, ast.Lambda):
            for z in ast.walk(y):
                if isinstance(z, ast.Name):
                    nested_reads.add(z.id)
    for n in cfg.nodes:
        if not (n.kind == "stmt" and isinstance(n.ast, ast.Assign) and len(n.ast.targets) == 1 and isinstance(n.ast.targets[0], ast.Name)
                and isinstance(n.ast.value, ast.Call)):
            continue
        v = n.ast.targets[0].id
        if v.startswith("_") or v in nested_reads or v in ("self",):
            continue
        # forward search: a read of v before any rebinding
        seen, todo, used = set(), [s_ for s_, l in cfg.succ[n.id]], False
        only_written = None
        while todo and not used:
            m = todo.pop()
            if m in seen:
                continue
            seen.add(m)
            nd = cfg.nodes[m]
            reads = [y for y in cfg.node_walk(m) if isinstance(y, ast.Name) and y.id == v and isinstance(y.ctx, ast.Load)]
            if reads:
                # `v.attr = ...` modifies the object bound to v but hands it to nobody: not a use of the value
                bases = set()
                if nd.kind == "stmt" and isinstance(nd.ast, (ast.Assign, ast.AugAssign)):
                    for t in (nd.ast.targets if isinstance(nd.ast, ast.Assign) else [nd.ast.target]):
                        if isinstance(t, ast.Attribute) and isinstance(t.value, ast.Name) and t.value.id == v:
                            bases.add(id(t.value))
                if bases and all(id(y) in bases for y in reads):
                    only_written = only_written or nd.ast
                    todo += [s_ for s_, l in cfg.succ[m]]
                    continue
                used = True
                break
            rebinds = nd.kind == "stmt" and isinstance(nd.ast, ast.Assign) and any(isinstance(t, ast.Name) and t.id == v for t in nd.ast.targets)
            if rebinds:
                continue
            todo += [s_ for s_, l in cfg.succ[m]]
        if not used:
            out.append((n.ast, v))
    return out


DEAD_STORE_OK = {
    # (function, callee of the dropped value)
    ("AddJitterOp", "cholesky"): "the factorisation is attempted for its LinAlgError; the factor itself is recomputed by the caller",
}


def dead_store_clause(ctx, rep, clause, relpaths, what):
    """no value computed by a call is bound to a local and then dropped (in the files the property anchors in)"""
    n = 0
    for f in sorted(ctx.P.functions.values(), key=lambda f: f.qualname):
        if f.module.relpath not in relpaths:
            continue
        n += 1
        for a, v in dead_local_stores(ctx, f):
            if (f.name, fn_name(a.value)) in DEAD_STORE_OK:
                continue
            rep.bad(clause, "dead_store", f"{f.short}: the value bound to `{v}` is used", f, a,
                    f"`{U(a)[:70]}` computes a value that no path reads afterwards: {what}")
    rep.put(n > 0, clause, "dead_store", f"no computed value is dropped in {len(relpaths)} anchored file(s)", None, None, f"{n} functions swept")


# ------------------------------------------------------------------ one mutable object stored in two places
def shared_mutable_stores(ctx, f):
    """[(name, [store nodes])] a local bound once to a fresh list / dict / set that is stored into two different long-lived
    places (attribute containers, constructor arguments) without a copy: later in-place growth of one shows up in the other"""
    from ..engine import local_defs
    out = []
    fresh = {}
    for x in walk_shallow(f.node):
        if isinstance(x, ast.Assign) and len(x.targets) == 1 and isinstance(x.targets[0], ast.Name):
            v = x.value
            if isinstance(v, (ast.List, ast.Dict, ast.Set, ast.ListComp, ast.DictComp, ast.SetComp)) or (
                    isinstance(v, ast.Call) and isinstance(v.func, ast.Name) and v.func.id in ("list", "dict", "set")):
                fresh.setdefault(x.targets[0].id, []).append(x)
    for name, defs in fresh.items():
        if len(defs) != 1 or len(local_defs(f, name)) != 1:
            continue
        sinks = []
        for x in walk_shallow(f.node):
            if isinstance(x, ast.Assign) and isinstance(x.value, ast.Name) and x.value.id == name:
                for t in x.targets:
                    root = t
                    while isinstance(root, (ast.Subscript, ast.Attribute)):
                        root = root.value
                    if isinstance(t, (ast.Subscript, ast.Attribute)) and isinstance(root, ast.Name) and root.id == "self":
                        sinks.append(x)
            if isinstance(x, ast.Call):
                for k in x.keywords:
                    if isinstance(k.value, ast.Name) and k.value.id == name and k.arg in ("metrics", "results", "data", "config", "state"):
                        sinks.append(x)
        if len(sinks) >= 2:
            out.append((name, sinks))
    return out


# ------------------------------------------------------------------ cross-cutting lints over the files a property anchors in
TRUTHY_OK = {}


def anchor_files(prop):
    import json
    import os
    here = os.path.dirname(os.path.dirname(os.path.dirname(os.path.abspath(__file__))))
    with open(os.path.join(here, "properties.jsonl")) as fh:
        for line in fh:
            d = json.loads(line)
            if d.get("id") == prop:
                return list(d.get("anchors", {}).get("files", []))
    return []


EXTRA_SWEPT_FILES = {
    # property: files outside its anchor list that its quantifier reaches
    "C01": ["syne_tune/blackbox_repository/simulated_tabular_backend.py"],   # "every benchmark table": the tabular backend overrides the simulator's pause / resume hooks
    "C12": ["syne_tune/blackbox_repository/simulated_tabular_backend.py"],
    "C14": ["syne_tune/optimizer/schedulers/searchers/dyhpo/dyhpo_searcher.py", "syne_tune/optimizer/schedulers/searchers/dyhpo/hyperband_dyhpo.py",
            "syne_tune/optimizer/schedulers/searchers/gp_searcher_factory.py"],     # "GP / HyperTune / DyHPO searchers": where their surrogate data is wired up
    "C20": ["syne_tune/blackbox_repository/simulated_tabular_backend.py", "syne_tune/backend/simulator_backend/simulator_backend.py"],
}
INHERITED_FILES_SKIPPED = {
    "syne_tune/optimizer/schedulers/searchers/bayesopt/gpautograd/gluon.py":
        "port of MXNet Gluon's Parameter / Block machinery (framework code with its own conventions: unused hook lists, context-manager signatures)",
}


def cross_cutting(ctx, rep, prop):
    """Lints that are not specific to one property, run over the files the property anchors in (clause X).  Each of them
    matched nothing (or only the listed exceptions) on the tree the rules were written for, and each was the mechanism of at
    least one seeded defect: a value computed and dropped, one fresh list stored in two places, list positions deleted in
    ascending order, a container mutated while it is iterated, a running max / min that forgets its history, an optional
    number tested for truth."""
    files = set(anchor_files(prop)) | set(EXTRA_SWEPT_FILES.get(prop, []))
    # what the anchored classes inherit is part of them: the files that define their base classes are swept as well
    for c_ in list(ctx.P.classes.values()):
        if c_.module.relpath in files:
            for b_ in ctx.P.mro(c_):
                if b_.module.relpath not in INHERITED_FILES_SKIPPED:
                    files.add(b_.module.relpath)
    funcs = [f for f in sorted(ctx.P.functions.values(), key=lambda f: f.qualname) if f.module.relpath in files]
    if not funcs:
        rep.info("X", "cross_cutting", f"no function of the anchored files of {prop} found", None, None, "")
        return
    bad = 0
    for f in funcs:
        for a, v in dead_local_stores(ctx, f):
            if (f.name, fn_name(a.value)) in DEAD_STORE_OK:
                continue
            bad += 1
            rep.bad("X", "dead_store", f"{f.short}: the value bound to `{v}` is used", f, a,
                    f"`{U(a)[:70]}` computes a value that no path reads afterwards: an update meant for a stored object is applied to a local")
        for name, sinks in shared_mutable_stores(ctx, f):
            bad += 1
            rep.bad("X", "aliasing", f"{f.short}: `{name}` is stored in one place", f, sinks[0],
                    f"the fresh container `{name}` is stored in {len(sinks)} long-lived places without a copy: growth of one shows in the other")
        for st, txt in ascending_index_deletion(ctx, f):
            bad += 1
            rep.bad("X", "index_shift", f"{f.short}: positions are deleted from the end", f, st,
                    f"`{txt}` inside a loop over ascending positions of the same list: every deletion shifts the later positions")
        try:
            mdi = mutation_during_iteration(ctx, f)
        except Exception:
            mdi = []
        for st, fld, txt in mdi:
            bad += 1
            rep.bad("X", "iter_mutation", f"{f.short}: `{fld}` is not changed while it is iterated", f, st,
                    f"`{txt}` changes the container the enclosing loop iterates: elements are skipped (or RuntimeError)")
        for st, txt in broken_accumulators(ctx, f):
            bad += 1
            rep.bad("X", "accumulator", f"{f.short}: the running extreme includes its previous value", f, st,
                    f"`{txt}`: after the loop the value depends on the last iteration only")
        for p_ in numeric_optional_params(f):
            for u in truthiness_uses(f, p_):
                if (f.qualname, p_) in TRUTHY_OK:
                    continue
                bad += 1
                rep.bad("X", "guarded_by", f"{f.short}: optional number `{p_}` is tested with `is None`, not for truth", f, u,
                        f"`{U(u)[:70]}` treats `{p_} = 0` as 'not given'")
        # ... and locals that hold the result of a method of the same object annotated `-> Optional[int]` / `Optional[float]`
        for nm_ in sorted({x.id for x in walk_shallow(f.node) if isinstance(x, ast.Name) and isinstance(x.ctx, ast.Store)}):
            ds_ = local_defs(f, nm_)
            if len(ds_) != 1 or isinstance(ds_[0], tuple) or not (isinstance(ds_[0], ast.Call) and isinstance(ds_[0].func, ast.Attribute)
                                                                 and isinstance(ds_[0].func.value, ast.Name) and ds_[0].func.value.id == "self"):
                continue
            m_ = ctx.P.lookup_method(f.defining_cls, ds_[0].func.attr) if f.defining_cls is not None else None
            ann = U(m_.node.returns).replace(" ", "") if m_ is not None and m_.node.returns is not None else ""
            if ann in ("Optional[int]", "Optional[float]", "Optional[Union[int,float]]"):
                for u in truthiness_uses(f, nm_):
                    bad += 1
                    rep.bad("X", "guarded_by", f"{f.short}: optional number `{nm_}` is tested with `is None`, not for truth", f, u,
                            f"`{U(u)[:70]}` treats `{nm_} = 0` (a legal result of {ds_[0].func.attr}) as 'nothing'")
        # seq[:-n] with a variable n: for n == 0 this is seq[:0], the empty sequence, not 'everything' - n must be known positive there
        cfg_f = cfg_of(f)
        for nd_ in cfg_f.nodes:
            for x_ in cfg_f.node_walk(nd_.id):
                if isinstance(x_, ast.Subscript) and isinstance(x_.slice, ast.Slice) and isinstance(x_.slice.upper, ast.UnaryOp) \
                        and isinstance(x_.slice.upper.op, ast.USub) and not isinstance(x_.slice.upper.operand, ast.Constant) and x_.slice.lower is None:
                    opnd = x_.slice.upper.operand
                    nn = U(opnd)
                    at_ = dom_guard(ctx, f, nd_.id)
                    pos = any((a[0] == "lt" and a[1] == "0" and a[2] == nn) or (a[0] == "le" and a[1] == "1" and a[2] == nn) or
                              (a[0] == "truth" and a[1] == nn and a[2] is True) for a in at_)
                    if not pos and isinstance(opnd, ast.BinOp) and isinstance(opnd.op, ast.Sub):
                        # a - b > 0  is  b < a
                        pos = any(a[0] == "lt" and a[1] == U(opnd.right) and a[2] == U(opnd.left) for a in at_)
                    if not pos:
                        bad += 1
                        rep.bad("X", "guarded_by", f"{f.short}: `{U(x_)[:40]}` is taken only where `{nn}` is known to be positive", f, x_,
                                f"for {nn} == 0 the slice `[:-{nn}]` is `[:0]` - empty - not the whole sequence: the boundary case drops everything")
        for px_, key_, call_ in consumed_before_forwarding(f):
            bad += 1
            rep.bad("X", "agreement", f"{f.short}: `{key_}` still reaches {fn_name(call_)} after it was taken out of the keyword arguments", f, px_,
                    f"`{U(px_)[:50]}` removes `{key_}` from the keyword arguments that are then forwarded to {fn_name(call_)} without it: that component "
                    "falls back to its default (e.g. mode 'min') while the rest of the experiment uses the user's value")
        for call_, opt_ in omitted_options(f):
            bad += 1
            rep.bad("X", "agreement", f"{f.short}: `{opt_}` is handed on to {fn_name(call_)}", f, call_,
                    f"{fn_name(call_)} has a parameter `{opt_}` and {f.short} has that option at hand, but the call does not pass it: the component works with its "
                    "default while the rest of the experiment uses the user's value")
        for node_, var_ in caller_container_mutations(f):
            bad += 1
            rep.bad("X", "aliasing", f"{f.short}: `{var_}` is the constructor's own copy when it is modified", f, node_,
                    f"`{U(node_)[:70]}` modifies a container the caller handed in (no copy was taken): what the constructor writes into it "
                    "reaches whatever the caller builds from the same object next")
        for node_, attr_ in write_only_attributes(ctx, f):
            bad += 1
            rep.bad("X", "agreement", f"{f.short}: attribute `{attr_}` has a reader", f, node_,
                    f"`self.{attr_}` is written by {f.short} and read nowhere in the package (under this spelling): whoever needs the value keeps seeing a default")
        for p_ in ignored_parameters(ctx, f):
            bad += 1
            rep.bad("X", "agreement", f"{f.short}: parameter `{p_}` is used", f, f.param_node(p_),
                    f"`{p_}` is accepted by {f.short} and never read: the caller's value is dropped and a default takes its place further down")
        for call_, par_, txt_ in argument_name_mismatches(f):
            if (f.name, fn_name(call_), par_) in ARG_NAME_OK:
                continue
            bad += 1
            rep.bad("X", "agreement", f"{f.short}: `{txt_}` is not passed for another parameter of {fn_name(call_)}", f, call_,
                    f"`{txt_}` is passed for parameter `{par_}` of {fn_name(call_)}, which has a parameter of that very name: two arguments changed places")
        for u in numeric_lookup_or_default(f):
            bad += 1
            rep.bad("X", "guarded_by", f"{f.short}: a looked-up number is defaulted on absence, not on falsity", f, u,
                    f"`{U(u)[:70]}` replaces a stored 0 by the default: the lookup needs `.get(key, default)` / an `is None` test")
    for c_ in sorted({f.cls for f in funcs if f.cls is not None}, key=lambda c_: c_.qualname if hasattr(c_, "qualname") else c_.name):
        for st_, a_, b_, who_ in stale_derived_attributes(ctx, c_):
            bad += 1
            rep.bad("X", "agreement", f"{c_.name}: `{a_}` follows `{b_}`", c_, st_,
                    f"`{U(st_)[:60]}` derives self.{a_} from self.{b_} once, in the constructor, but {who_} assigns self.{b_} later without recomputing it: "
                    f"self.{a_} keeps describing the old value (e.g. the sign of a mode that configure_scheduler has changed since)")
        for st_, attr_ in shared_class_level_containers(ctx, c_):
            bad += 1
            rep.bad("X", "aliasing", f"{c_.name}.{attr_}: every instance has its own container", c_, st_,
                    f"`{U(st_)[:60]}` creates one container in the class body; methods modify it in place through self.{attr_} and no constructor gives the "
                    "instance its own: all instances of the process share it (what one experiment leaves behind is acted on by the next)")
        for m_, call_ in bypassed_base_calls(ctx, c_):
            bad += 1
            rep.bad("X", "must_follow", f"{c_.name}.{m_.name}: the base implementation it calls unconditionally is reached on every path", m_, call_,
                    f"`{U(call_)[:60]}` is a top-level statement of {c_.name}.{m_.name}, yet a path returns before it: on that path the base class "
                    "never does its part (the backend is not told, the record is not written, the event is not scheduled)")
        for m_, base_ in overrides_without_base_call(ctx, c_):
            bad += 1
            rep.bad("X", "must_follow", f"{c_.name}.{m_.name} runs the implementation it overrides ({base_.cls.name}.{m_.name})", m_, None,
                    f"{c_.name}.{m_.name} can return without calling {base_.cls.name}.{m_.name}: what the base class sets up, registers, saves or restores "
                    "is missing in this subclass")
    rep.put(bad == 0, "X", "cross_cutting", f"cross-cutting lints over the {len(files)} anchored file(s)", None, None,
            f"{len(funcs)} functions: no dropped value, shared fresh container, ascending index deletion, mutation while iterating, "
            "forgetful accumulator, truthiness test on an optional number, looked-up number defaulted by `or`, argument named like another "
            "parameter of its callee, or chained override that skips its base implementation")
