"""Rule kinds over the program model, and the report object rule modules fill.

Everything here is a query over syntax trees, the class hierarchy, resolved
call edges, CFGs and available facts of /repo's current sources.
"""
import ast

from .core.model import Program, ClassInfo, FuncInfo, AnchorError, parent
from .core.cfg import cfg_of, walk_shallow, CFG
from .core.facts import Facts, atoms_of, implied, parse_cond, U, base_path, _store_targets, edge_filter, atom_expr
from .core.resolve import Resolver, Ty


class Item:
    def __init__(self, status, clause, rule, construct, loc, detail, witness=None):
        self.status = status      # ok | violation | info
        self.clause = clause
        self.rule = rule
        self.construct = construct
        self.loc = loc
        self.detail = detail
        self.witness = witness or []

    def key(self):
        return (self.rule, self.construct)

    def as_dict(self):
        d = {"status": self.status, "clause": self.clause, "rule": self.rule,
             "construct": self.construct, "loc": self.loc, "detail": self.detail}
        if self.witness:
            d["witness"] = self.witness
        return d


class Report:
    def __init__(self, prop):
        self.prop = prop
        self.items = []
        self.notes = []
        self.touched = {}      # qualname -> (relpath, first line): functions some rule instance reported on

    def _loc(self, f, node):
        if isinstance(f, FuncInfo):
            top = f
            while top.parent is not None:
                top = top.parent
            self.touched.setdefault(top.qualname, (top.module.relpath, top.node.lineno))
        if f is None:
            return ""
        if isinstance(f, str):
            return f
        if isinstance(f, ClassInfo):
            return f"{f.module.relpath}:{(node or f.node).lineno}"
        return f.loc(node)

    def ok(self, clause, rule, construct, f=None, node=None, detail=""):
        self.items.append(Item("ok", clause, rule, construct, self._loc(f, node), detail))

    def bad(self, clause, rule, construct, f=None, node=None, detail="", witness=None):
        self.items.append(Item("violation", clause, rule, construct, self._loc(f, node), detail, witness))

    def info(self, clause, rule, construct, f=None, node=None, detail=""):
        self.items.append(Item("info", clause, rule, construct, self._loc(f, node), detail))

    def put(self, cond, clause, rule, construct, f=None, node=None, detail="", bad_detail=None, witness=None):
        if cond:
            self.ok(clause, rule, construct, f, node, detail)
        else:
            self.bad(clause, rule, construct, f, node, bad_detail or detail, witness)
        return cond

    def note(self, s):
        self.notes.append(s)

    def count(self, clause):
        return sum(1 for i in self.items if i.clause == clause and i.status in ("ok", "violation"))


class Ctx:
    def __init__(self, root="/repo", overlay=None):
        self.P = Program(root=root, overlay=overlay)
        self.R = Resolver(self.P)
        _build_signatures(self.P)
        self._facts = {}
        self._does = {}

    # ---------------------------------------------------------------- basics
    def cfg(self, f: FuncInfo) -> CFG:
        return cfg_of(f)

    def facts(self, f: FuncInfo) -> Facts:
        if f not in self._facts:
            self._facts[f] = Facts(cfg_of(f))
        return self._facts[f]

    def family(self, cls):
        """cls, its superclasses and subclasses."""
        if isinstance(cls, str):
            cls = self.P.cls(cls)
        return set(self.P.mro(cls)) | set(self.P.all_subclasses(cls))

    def down(self, cls):
        if isinstance(cls, str):
            cls = self.P.cls(cls)
        return set(self.P.all_subclasses(cls, strict=False))

    # ----------------------------------------------------------- call matching
    def call_targets(self, f, call):
        for c, tg in self.R.calls(f):
            if c is call:
                return tg
        return self.R.resolve_call(f, call)

    def is_call_to(self, f, call, method=None, recv=None, func=None, allow_name=True, selfcall=None):
        """Does ``call`` (inside f) possibly invoke the described callee?

        method+recv : a method named ``method`` on an object whose static type is
                      in the family (sub/superclasses) of class ``recv``.
        func        : a FuncInfo (module function or specific method), by identity.
        selfcall    : ``self.<selfcall>(...)``.
        allow_name  : if the receiver cannot be typed, match by method name
                      (over-approximation).
        """
        fn = call.func
        if selfcall is not None:
            return isinstance(fn, ast.Attribute) and fn.attr == selfcall and \
                isinstance(fn.value, ast.Name) and fn.value.id == "self"
        if func is not None:
            tg = self.call_targets(f, call)
            return any(t is func for t, h in tg)
        if method is not None:
            if not (isinstance(fn, ast.Attribute) and fn.attr == method):
                return False
            if recv is None:
                return True
            fam = self.family(recv)
            tg = self.call_targets(f, call)
            typed = [t for t, h in tg if h == "type"]
            if typed:
                return any(isinstance(t, FuncInfo) and getattr(t, "defining_cls", None) in fam for t in typed)
            if isinstance(fn.value, ast.Call) and isinstance(fn.value.func, ast.Name) and fn.value.func.id == "super":
                return False
            t = self.R.infer(f, fn.value)
            if t is not None and (t.cls is not None or (t.name or "").split(":")[0] in
                                  ("ext", "list", "set", "dict", "tuple", "str", "int", "module", "extmod")):
                return t.cls in fam if t.cls is not None else False
            return allow_name and any(getattr(t, "defining_cls", None) in fam for t, h in tg)
        return False

    def calls_in(self, f, **kw):
        """[(cfg node id, call)] of calls in f matching is_call_to(**kw) (lambda bodies excluded)."""
        cfg = cfg_of(f)
        out = []
        for n in cfg.nodes:
            for x in cfg.node_walk(n.id):
                if isinstance(x, ast.Call) and self.is_call_to(f, x, **kw):
                    out.append((n.id, x))
        return out

    def all_calls_anywhere(self, **kw):
        """[(func, call)] over the whole package, including calls inside lambdas."""
        out = []
        for f in self.P.functions.values():
            for c, tg in self.R.calls(f):
                if self.is_call_to(f, c, **kw):
                    out.append((f, c))
        # module-level and class-level statements
        return out

    # ------------------------------------------------------------- selectors
    def sel_call(self, **kw):
        def sel(f, cfg, nid):
            return [x for x in cfg.node_walk(nid) if isinstance(x, ast.Call) and self.is_call_to(f, x, **kw)]
        sel.desc = "call(" + ", ".join(f"{k}={getattr(v, 'qualname', v)}" for k, v in kw.items()) + ")"
        return sel

    def sel_store(self, attr=None, name=None, subscript=None, aug=None):
        """store to self.<attr> (attribute itself, or with subscript=True a subscript of it), or to local <name>."""
        def sel(f, cfg, nid):
            n = cfg.nodes[nid]
            out = []
            if n.kind not in ("stmt", "for", "with"):
                return out
            st = n.ast
            if aug is True and not isinstance(st, ast.AugAssign):
                return out
            if aug is False and isinstance(st, ast.AugAssign):
                return out
            for t in _store_targets(st):
                is_sub = isinstance(t, ast.Subscript)
                b = base_path(t)
                if subscript is not None and subscript != is_sub:
                    continue
                if attr is not None and b == "self." + attr:
                    out.append(t)
                if name is not None and b == name:
                    out.append(t)
            return out
        sel.desc = f"store({attr or name}{'[...]' if subscript else ''})"
        return sel

    def sel_pred(self, pred, desc="pred"):
        def sel(f, cfg, nid):
            return [x for x in cfg.node_walk(nid) if pred(x)]
        sel.desc = desc
        return sel

    def sel_stmt(self, pred, desc="stmt"):
        def sel(f, cfg, nid):
            n = cfg.nodes[nid]
            return [n.ast] if n.ast is not None and pred(n) else []
        sel.desc = desc
        return sel

    def sel_or(self, *sels):
        def sel(f, cfg, nid):
            out = []
            for s in sels:
                out += s(f, cfg, nid)
            return out
        sel.desc = " | ".join(s.desc for s in sels)
        return sel

    # --------------------------------------------- matching through helpers
    def _helper_targets(self, f, call):
        """Callees worth looking through: resolved by type, inside the package."""
        tg = self.call_targets(f, call)
        typed = [t for t, h in tg if h == "type" and isinstance(t, FuncInfo)]
        return typed

    def does(self, g, sel, mode, depth):
        """Summary: does function g perform ``sel`` on some path ('may') / on every
        path from entry to a normal exit ('must')?"""
        key = (g, id(sel), mode)
        if key in self._does:
            return self._does[key]
        self._does[key] = False  # recursion guard
        cfg = cfg_of(g)
        hits = self.nodes(g, sel, mode, depth)
        if mode == "may":
            r = bool(hits)
        else:
            r = cfg.exit not in cfg.reachable(cfg.entry, deleted=hits, skip_labels=("exc",))
        self._does[key] = r
        return r

    def nodes(self, f, sel, mode="may", depth=3):
        """CFG node ids of f at which ``sel`` happens directly or through looked-through callees.

        mode 'may': some resolved callee may do it; 'must': every resolved callee
        (there must be at least one, typed) does it on every normal path."""
        cfg = cfg_of(f)
        out = set()
        for n in cfg.nodes:
            if n.kind in ("entry", "exit", "raise"):
                continue
            if sel(f, cfg, n.id):
                out.add(n.id)
                continue
            if depth <= 0:
                continue
            for x in cfg.node_walk(n.id):
                if not isinstance(x, ast.Call):
                    continue
                tgs = [t for t in self._helper_targets(f, x) if t is not f]
                if not tgs:
                    continue
                if mode == "may":
                    if any(self.does(t, sel, "may", depth - 1) for t in tgs):
                        out.add(n.id)
                        break
                else:
                    if all(self.does(t, sel, "must", depth - 1) for t in tgs):
                        out.add(n.id)
                        break
        return out

    # ------------------------------------------------------------ path rules
    def must_precede(self, f, A, B, depth=3, start=None, b_nodes=None, a_nodes=None, assume=None,
                     skip_labels=()):
        """Every path entry -> B-site passes an A-site.  Returns (b_nodes, violations)
        where violations = [(b nid, witness path description)]"""
        cfg = cfg_of(f)
        a = self.nodes(f, A, "must", depth) if a_nodes is None else set(a_nodes)
        b = self.nodes(f, B, "may", depth) if b_nodes is None else set(b_nodes)
        st = cfg.entry if start is None else start
        viol = []
        for bn in sorted(b):
            if bn in a:
                # same node does both: order inside the statement is not decided here
                pass
            p = cfg.path(st, bn, deleted=a - {bn}, skip_labels=skip_labels,
                         edge_ok=edge_filter(assume) if assume else None)
            if p is not None and bn not in a:
                viol.append((bn, cfg.describe_path(p)))
        return b, viol

    def must_follow(self, f, A, B, depth=3, exits=("exit",), a_nodes=None, b_nodes=None, skip_labels=("exc",),
                    assume=None):
        """Every path from an A-site to a (normal) exit passes a B-site."""
        cfg = cfg_of(f)
        a = self.nodes(f, A, "may", depth) if a_nodes is None else set(a_nodes)
        b = self.nodes(f, B, "must", depth) if b_nodes is None else set(b_nodes)
        goals = set()
        if "exit" in exits:
            goals.add(cfg.exit)
        if "raise" in exits:
            goals.add(cfg.raise_exit)
        viol = []
        for an in sorted(a):
            if an in b:
                continue
            starts = [s for s, l in cfg.succ[an] if l not in skip_labels]
            p = cfg.path(starts, goals, deleted=b, skip_labels=skip_labels,
                         edge_ok=edge_filter(assume) if assume else None)
            if p is not None:
                viol.append((an, cfg.describe_path([an] + p)))
        return a, viol

    def guarded_by(self, f, nodes, cond, truth=True):
        """[(nid, holds)] : do the atoms of cond hold on every path into each node?"""
        fa = self.facts(f)
        if isinstance(cond, str):
            cond = parse_cond(cond)
        return [(n, fa.holds(n, cond, truth)) for n in sorted(nodes)]

    def has_fact(self, f, nid, pred):
        """Is there an atom holding on every path into nid with pred(atom) true?"""
        at = self.facts(f).at(nid)
        if any(pred(a) for a in at):
            return True
        # `x = d.get(k)` ... `x is None` / `is not None` read as `k not in d` / `k in d` (rules/common.derived_membership)
        from .rules.common import derived_membership
        return any(pred(a) for a in derived_membership(f, at))

    def entry_nodes(self, f):
        return {cfg_of(f).entry}

    # ----------------------------------------------------------- store sites
    def writers(self, attr, classes=None, mutating=True):
        """Functions that write ``<x>.attr`` (assign / augassign / del / mutating call), restricted to
        receivers typed as one of ``classes`` (family) when given; [(func, node, kind)]"""
        fam = None
        if classes is not None:
            fam = set()
            for c in classes:
                fam |= self.family(c)
        out = []
        for f in self.P.functions.values():
            for n in walk_shallow(f.node, include_lambda=True):
                tgts = []
                if isinstance(n, (ast.Assign, ast.AugAssign, ast.AnnAssign, ast.Delete, ast.For, ast.With)):
                    for t in _store_targets(n):
                        kind = "aug" if isinstance(n, ast.AugAssign) else ("del" if isinstance(n, ast.Delete) else "store")
                        while isinstance(t, ast.Subscript):
                            t = t.value
                            kind = kind + "[]"
                        if isinstance(t, ast.Attribute) and t.attr == attr:
                            tgts.append((t, kind))
                elif mutating and isinstance(n, ast.Call) and isinstance(n.func, ast.Attribute):
                    from .core.facts import MUTATORS
                    if n.func.attr in MUTATORS:
                        t = n.func.value
                        while isinstance(t, ast.Subscript):
                            t = t.value
                        if isinstance(t, ast.Attribute) and t.attr == attr:
                            tgts.append((t, "call:" + n.func.attr))
                    elif n.func.attr in ("heappush", "heappop", "heapify") or (
                            isinstance(n.func.value, ast.Name) and n.func.value.id == "heapq"):
                        for a in n.args[:1]:
                            if isinstance(a, ast.Attribute) and a.attr == attr:
                                tgts.append((a, "call:" + n.func.attr))
                elif mutating and isinstance(n, ast.Call) and isinstance(n.func, ast.Name) and \
                        n.func.id in ("heappush", "heappop", "heapify", "setattr"):
                    for a in n.args[:1]:
                        if isinstance(a, ast.Attribute) and a.attr == attr:
                            tgts.append((a, "call:" + n.func.id))
                for t, kind in tgts:
                    if fam is not None:
                        ty = self.R.infer(f, t.value)
                        if ty is not None and ty.cls is not None and ty.cls not in fam:
                            continue
                        if ty is None and not (isinstance(t.value, ast.Name) and t.value.id == "self"):
                            # untyped receiver: keep (over-approximate)
                            pass
                        if ty is None and isinstance(t.value, ast.Name) and t.value.id == "self":
                            continue
                    out.append((f, n, kind))
        return out


def const_str(ctx, f, e):
    """Evaluate an expression to a string constant through module/class constants."""
    if isinstance(e, ast.Constant) and isinstance(e.value, str):
        return e.value
    if isinstance(e, (ast.Name, ast.Attribute)):
        r = ctx.P.resolve_expr_static(f.module, e, f.cls)
        if isinstance(r, tuple) and r[0] == "const":
            v = r[3]
            if isinstance(v, ast.Constant) and isinstance(v.value, str):
                return v.value
            hm = r[1] if not isinstance(r[1], ClassInfo) else r[1].module
            if isinstance(v, (ast.Name, ast.Attribute)):
                r2 = ctx.P.resolve_expr_static(hm, v)
                if isinstance(r2, tuple) and r2[0] == "const" and isinstance(r2[3], ast.Constant):
                    return r2[3].value
    return None


def fn_name(call):
    f = call.func
    if isinstance(f, ast.Attribute):
        return f.attr
    if isinstance(f, ast.Name):
        return f.id
    return None


def kwarg(call, name, pos=None):
    for k in call.keywords:
        if k.arg == name:
            return k.value
    if pos is not None and len(call.args) > pos:
        return call.args[pos]
    return None


_SIG = {}


_RECORDS = {}


def _build_records(P):
    """class name -> ordered field names, for the program's record classes (typing.NamedTuple subclasses and @dataclass classes
    without an __init__ of their own): `T(a, b)` / `T(x=a, y=b)` builds a record with those fields"""
    _RECORDS.clear()
    amb = set()
    for c in P.classes.values():
        node = c.node
        is_nt = any((isinstance(b, ast.Name) and b.id == "NamedTuple") or (isinstance(b, ast.Attribute) and b.attr == "NamedTuple") for b in node.bases)
        is_dc = any((isinstance(d, ast.Name) and d.id == "dataclass") or (isinstance(d, ast.Attribute) and d.attr == "dataclass")
                    or (isinstance(d, ast.Call) and ((isinstance(d.func, ast.Name) and d.func.id == "dataclass") or
                                                      (isinstance(d.func, ast.Attribute) and d.func.attr == "dataclass")))
                    for d in node.decorator_list)
        if not (is_nt or is_dc) or "__init__" in c.methods:
            continue
        fields = [s.target.id for s in node.body if isinstance(s, ast.AnnAssign) and isinstance(s.target, ast.Name)]
        if c.name in _RECORDS and _RECORDS[c.name] != (tuple(fields), is_nt):
            amb.add(c.name)
        _RECORDS[c.name] = (tuple(fields), is_nt)
    for n in amb:
        _RECORDS.pop(n, None)


def record_fields(e):
    """{field: value expr} of a record construction `T(...)` (T a NamedTuple / dataclass of the program), else None"""
    if not (isinstance(e, ast.Call) and isinstance(e.func, (ast.Name, ast.Attribute))):
        return None
    name = e.func.id if isinstance(e.func, ast.Name) else e.func.attr
    rec = _RECORDS.get(name)
    if rec is None or any(isinstance(a, ast.Starred) for a in e.args) or any(k.arg is None for k in e.keywords) or len(e.args) > len(rec[0]):
        return None
    out = dict(zip(rec[0], e.args))
    for k in e.keywords:
        if k.arg not in rec[0] or k.arg in out:
            return None
        out[k.arg] = k.value
    return out


def record_elts(e):
    """the element expressions of a tuple display, or of the construction of a NamedTuple of the program in field order (a
    NamedTuple is a tuple: positions, unpacking and comparison are those of its fields); None for anything else"""
    if isinstance(e, ast.Tuple):
        return list(e.elts)
    if isinstance(e, ast.Call) and isinstance(e.func, (ast.Name, ast.Attribute)):
        name = e.func.id if isinstance(e.func, ast.Name) else e.func.attr
        rec = _RECORDS.get(name)
        fl = record_fields(e) if rec is not None and rec[1] else None
        if fl is not None and all(k in fl for k in rec[0]):
            return [fl[k] for k in rec[0]]
    return None


def field_key(e):
    """(base expression, field) of a read of one field of a record, written `base['field']`, `base.field`, or `base[i]` for a
    NamedTuple field (then also the position); None otherwise"""
    if isinstance(e, ast.Subscript) and isinstance(e.slice, ast.Constant) and isinstance(e.slice.value, str):
        return e.value, e.slice.value
    if isinstance(e, ast.Attribute):
        return e.value, e.attr
    return None


def _build_signatures(P):
    """name -> set of parameter tuples over every function / method of the analysed program (self / cls dropped)"""
    _build_records(P)
    _SIG.clear()
    for f in P.functions.values():
        a = f.node.args
        ps = [x.arg for x in a.posonlyargs + a.args]
        if f.cls is not None and ps and ps[0] in ("self", "cls"):
            ps = ps[1:]
        _SIG.setdefault(f.name, set()).add(tuple(ps))
        if f.name == "__init__" and f.cls is not None:
            _SIG.setdefault(f.cls.name, set()).add(tuple(ps))


def argn(call, i):
    """the i-th argument of a call in the callee's parameter order, whether it is written positionally or as a keyword
    (keywords are mapped through the parameter lists of the program's functions of that name, if they agree at position i)"""
    if len(call.args) > i:
        return None if any(isinstance(x, ast.Starred) for x in call.args[:i]) else call.args[i]
    sigs = _SIG.get(fn_name(call)) or set()
    names = {s[i] for s in sigs if len(s) > i}
    if len(names) == 1 and all(len(s) > i for s in sigs):
        return kwarg(call, next(iter(names)))
    return None


def names_in(e):
    return {n.id for n in ast.walk(e) if isinstance(n, ast.Name)}


def one(lst, what):
    if len(lst) != 1:
        raise AnchorError(f"expected exactly one {what}, found {len(lst)}")
    return lst[0]


def local_defs(f, name):
    """Value expressions assigned to local ``name`` in f (tuple-unpacking gives ('unpack', value, index))."""
    out = []
    for n in walk_shallow(f.node):
        if isinstance(n, ast.Assign):
            for t in n.targets:
                if isinstance(t, ast.Name) and t.id == name:
                    out.append(n.value)
                elif isinstance(t, (ast.Tuple, ast.List)):
                    for i, e in enumerate(t.elts):
                        if isinstance(e, ast.Name) and e.id == name:
                            if isinstance(n.value, (ast.Tuple, ast.List)) and len(n.value.elts) == len(t.elts):
                                out.append(n.value.elts[i])
                            else:
                                out.append(("unpack", n.value, i))
        elif isinstance(n, ast.AnnAssign) and isinstance(n.target, ast.Name) and n.target.id == name and n.value:
            out.append(n.value)
        elif isinstance(n, ast.AugAssign) and isinstance(n.target, ast.Name) and n.target.id == name:
            out.append(("aug", n.op, n.value))
        elif isinstance(n, ast.NamedExpr) and n.target.id == name:
            out.append(n.value)
    return out


def returns_of(f):
    return [n for n in walk_shallow(f.node) if isinstance(n, ast.Return)]


def clone(node):
    """deep copy of a syntax (sub)tree that does not climb the loader's `_parent` links out of it (a plain deepcopy would copy the
    whole module through them, at a recursion depth that grows with the module)"""
    import copy
    par = getattr(node, "_parent", None)
    memo = {}
    if par is not None:
        memo[id(par)] = par
    return copy.deepcopy(node, memo)


def _node_binds(n):
    """names (re)bound by CFG node n"""
    out = set()

    def tg(t):
        for y in ast.walk(t):
            if isinstance(y, ast.Name) and isinstance(y.ctx, (ast.Store, ast.Del)):
                out.add(y.id)
    a = n.ast
    if n.kind == "stmt":
        if isinstance(a, ast.Assign):
            for t in a.targets:
                tg(t)
        elif isinstance(a, (ast.AugAssign, ast.AnnAssign)):
            tg(a.target)
        elif isinstance(a, (ast.Import, ast.ImportFrom)):
            for al in a.names:
                out.add((al.asname or al.name).split(".")[0])
        elif isinstance(a, ast.Delete):
            for t in a.targets:
                tg(t)
        for y in ast.walk(a) if isinstance(a, ast.AST) else []:
            if isinstance(y, ast.NamedExpr):
                tg(y.target)
    elif n.kind == "test" and isinstance(a, ast.AST):
        for y in ast.walk(a):
            if isinstance(y, ast.NamedExpr):
                tg(y.target)
    elif n.kind == "for":
        tg(a.target)
    elif n.kind == "with":
        for it in a.items:
            if it.optional_vars is not None:
                tg(it.optional_vars)
    elif n.kind == "except":
        if getattr(a, "name", None):
            out.add(a.name)
    elif n.kind == "def":
        if hasattr(a, "name"):
            out.add(a.name)
    return out


def reaching_defs(f):
    """{node id: {name: frozenset of defining node ids}} at the ENTRY of each CFG node of f; -1 stands for the value the name has
    on entry to the function (a parameter)."""
    if getattr(f, "_reaching", None) is not None:
        return f._reaching
    cfg = cfg_of(f)
    binds = {n.id: _node_binds(n) for n in cfg.nodes}
    params = set(f.params)
    IN = {n.id: {} for n in cfg.nodes}
    IN[cfg.entry] = {p: frozenset([-1]) for p in params}
    work = [cfg.entry]
    seen_once = set()
    while work:
        nid = work.pop()
        out = dict(IN[nid])
        for nm in binds[nid]:
            out[nm] = frozenset([nid])
        for s, _l in cfg.succ[nid]:
            cur = IN[s]
            changed = s not in seen_once
            seen_once.add(s)
            for nm, ds in out.items():
                old = cur.get(nm, frozenset())
                new = old | ds
                if new != old:
                    cur[nm] = new
                    changed = True
            if changed:
                work.append(s)
    try:
        f._reaching = IN
    except AttributeError:
        pass
    return IN


def origins(f, name, nid, _seen=None):
    """what the local `name` can hold on entry to CFG node nid, plain aliases (`a = b`) followed: a list of value expressions,
    the string 'param:<p>' for the value a parameter had on entry, ('unpack', call, i), or ('bound', node) for loop / with / except /
    augmented bindings"""
    cfg = cfg_of(f)
    R = reaching_defs(f)
    _seen = _seen if _seen is not None else set()
    out = []
    for d in sorted(R.get(nid, {}).get(name, ())):
        if (name, d) in _seen:
            continue
        _seen.add((name, d))
        if d == -1:
            out.append(f"param:{name}")
            continue
        n = cfg.nodes[d]
        a = n.ast
        if n.kind == "stmt" and isinstance(a, ast.Assign):
            done = False
            for t in a.targets:
                if isinstance(t, ast.Name) and t.id == name:
                    if isinstance(a.value, ast.Name):
                        out += origins(f, a.value.id, d, _seen)
                    else:
                        out.append(a.value)
                    done = True
                elif isinstance(t, (ast.Tuple, ast.List)):
                    for i, e in enumerate(t.elts):
                        if isinstance(e, ast.Name) and e.id == name:
                            out.append(("unpack", a.value, i))
                            done = True
            if not done:
                out.append(("bound", a))
        else:
            out.append(("bound", a))
    return out


def value_choices(f):
    """two-way choices of a value, whichever way they are written: [(node, test, value if true, value if false, what)] for
    a conditional expression (what = 'expr'), `if t: return A else: return B` (what = 'return') and
    `if t: x = A else: x = B` (what = the target text).  The loader has already turned guard clauses into if/else."""
    out = []
    for n in walk_shallow(f.node):
        if isinstance(n, ast.IfExp):
            out.append((n, n.test, n.body, n.orelse, "expr"))
        elif isinstance(n, ast.If) and len(n.body) == 1 and len(n.orelse) == 1:
            a, b = n.body[0], n.orelse[0]
            if isinstance(a, ast.Return) and isinstance(b, ast.Return) and a.value is not None and b.value is not None:
                out.append((n, n.test, a.value, b.value, "return"))
            elif isinstance(a, ast.Assign) and isinstance(b, ast.Assign) and len(a.targets) == 1 and len(b.targets) == 1 \
                    and ast.dump(a.targets[0]) == ast.dump(b.targets[0]):
                out.append((n, n.test, a.value, b.value, ast.unparse(a.targets[0])))
    return out


def dict_items(e):
    """{key: value expr} of a dict literal / dict(k=v) call with constant keys, else None."""
    if isinstance(e, ast.Dict):
        out = {}
        for k, v in zip(e.keys, e.values):
            if isinstance(k, ast.Constant):
                out[k.value] = v
            else:
                return None
        return out
    if isinstance(e, ast.Call) and isinstance(e.func, ast.Name) and e.func.id == "dict" and not e.args:
        return {k.arg: k.value for k in e.keywords if k.arg}
    # a record with named fields (NamedTuple / dataclass of the program) in place of a dict with constant keys
    return record_fields(e)


def stmts_in(body):
    """All statements nested in a statement list (not into nested defs)."""
    for st in body:
        yield st
        for fld in ("body", "orelse", "finalbody"):
            sub = getattr(st, fld, None)
            if sub and not isinstance(st, (ast.FunctionDef, ast.AsyncFunctionDef, ast.ClassDef)):
                yield from stmts_in(sub)
        for h in getattr(st, "handlers", []) or []:
            yield from stmts_in(h.body)


def contains_call(node, pred):
    return any(isinstance(x, ast.Call) and pred(x) for x in walk_shallow(node))


# ------------------------------------------------------------------ branch-edge dominators + tiny propositional check
def dominating_edges(cfg, nid, skip_labels=("exc",)):
    """Branch edges (test nid, cond expr, truth) that every path entry -> nid must take last before
    reaching nid (edge dominators): removing the edge makes nid unreachable."""
    out = []
    for n in cfg.nodes:
        if n.kind not in ("test",) and not (n.kind == "stmt" and isinstance(n.ast, ast.Assert)):
            continue
        for (s, label) in cfg.succ[n.id]:
            if not (isinstance(label, tuple) and label[0] == "cond"):
                continue
            # reachability without this edge
            seen = {cfg.entry}
            todo = [cfg.entry]
            while todo:
                x = todo.pop()
                for (m, l2) in cfg.succ[x]:
                    if isinstance(l2, str) and l2 in skip_labels:
                        continue
                    if x == n.id and m == s and l2 is label:
                        continue
                    if m not in seen:
                        seen.add(m)
                        todo.append(m)
            if nid not in seen:
                out.append((n.id, label[1], label[2]))
    return out


def _bool_atoms(e, acc):
    if isinstance(e, ast.BoolOp):
        for v in e.values:
            _bool_atoms(v, acc)
    elif isinstance(e, ast.UnaryOp) and isinstance(e.op, ast.Not):
        _bool_atoms(e.operand, acc)
    else:
        acc.add(U(e))


def _bool_eval(e, val):
    if isinstance(e, ast.BoolOp):
        vs = [_bool_eval(v, val) for v in e.values]
        return all(vs) if isinstance(e.op, ast.And) else any(vs)
    if isinstance(e, ast.UnaryOp) and isinstance(e.op, ast.Not):
        return not _bool_eval(e.operand, val)
    return val[U(e)]


def prop_satisfiable(conds, extra=()):
    """Is the conjunction of (expr, truth) pairs satisfiable, treating maximal non-boolean
    sub-expressions as independent propositional atoms?  (truth table, <= 16 atoms)"""
    import itertools
    atoms = set()
    allc = list(conds) + list(extra)
    for e, t in allc:
        _bool_atoms(e, atoms)
    atoms = sorted(atoms)
    if len(atoms) > 16:
        raise AnchorError("propositional check: too many atoms")
    for bits in itertools.product([False, True], repeat=len(atoms)):
        val = dict(zip(atoms, bits))
        if all(_bool_eval(e, val) == t for e, t in allc):
            return val
    return None


def stores_between(cfg, t_nid, n_nid, names):
    """Is there a path t -> n (not re-passing t) through a node that stores one of ``names``?"""
    from .core.facts import kills_and_gens
    fw = cfg.reachable([s for s, l in cfg.succ[t_nid]], deleted={t_nid})
    bw = cfg.reachable(n_nid, deleted={t_nid}, forward=False)
    for x in fw & bw:
        if x == n_nid:
            continue
        k, _ = kills_and_gens(cfg, x)
        if k & set(names):
            return x
    return None


def vars_assigned_from(f, pred):
    """local names with a definition whose value satisfies pred (tuple-unpacked definitions: pred gets the call)."""
    out = []
    for n in walk_shallow(f.node):
        if isinstance(n, ast.Assign):
            for t in n.targets:
                if isinstance(t, ast.Name) and pred(n.value):
                    out.append(t.id)
                elif isinstance(t, (ast.Tuple, ast.List)) and pred(n.value):
                    out += [e.id for e in t.elts if isinstance(e, ast.Name)]
        elif isinstance(n, ast.AnnAssign) and isinstance(n.target, ast.Name) and n.value is not None and pred(n.value):
            out.append(n.target.id)
    return out


def flows_into(f, expr, src_pred, _seen=None):
    """flow-insensitive data dependence: does `expr` contain a node satisfying src_pred, directly or through the
    definitions of the locals it reads?"""
    seen = _seen if _seen is not None else set()
    for y in ast.walk(expr):
        if src_pred(y):
            return True
    for y in ast.walk(expr):
        if isinstance(y, ast.Name) and isinstance(y.ctx, ast.Load) and y.id not in seen:
            seen.add(y.id)
            for d in local_defs(f, y.id):
                e = (d[2] if d[0] == "aug" else d[1]) if isinstance(d, tuple) else d
                if isinstance(e, ast.AST) and flows_into(f, e, src_pred, seen):
                    return True
            # in-place growth of the local (x.update(e), x.extend(e), x.append(e), x.add(e), x |= e) and loop targets
            for n in walk_shallow(f.node):
                if isinstance(n, ast.Call) and isinstance(n.func, ast.Attribute) and isinstance(n.func.value, ast.Name) \
                        and n.func.value.id == y.id and n.func.attr in ("update", "extend", "append", "add", "insert", "setdefault", "union"):
                    if any(flows_into(f, a, src_pred, seen) for a in list(n.args) + [k.value for k in n.keywords]):
                        return True
                if isinstance(n, ast.For) and any(isinstance(t, ast.Name) and t.id == y.id for t in ast.walk(n.target)):
                    if flows_into(f, n.iter, src_pred, seen):
                        return True
    return False


def canon_text(f, e, depth=3):
    """text of expression `e` that does not depend on how f names its locals: a local with exactly one plain
    definition is replaced by that definition (depth-bounded); comprehension / lambda variables are numbered in
    order of appearance."""
    import copy

    class Inline(ast.NodeTransformer):
        def __init__(self, d):
            self.d = d

        def visit_Name(self, n):
            if isinstance(n.ctx, ast.Load) and self.d > 0:
                ds = local_defs(f, n.id)
                if len(ds) == 1 and not isinstance(ds[0], tuple) and isinstance(ds[0], ast.AST):
                    return Inline(self.d - 1).visit(clone(ds[0]))
            return n
    t = Inline(depth).visit(clone(e))
    bound = {}
    for y in ast.walk(t):
        if isinstance(y, ast.comprehension):
            for z in ast.walk(y.target):
                if isinstance(z, ast.Name):
                    bound.setdefault(z.id, f"_b{len(bound)}")
        if isinstance(y, ast.Lambda):
            for a in y.args.args:
                bound.setdefault(a.arg, f"_b{len(bound)}")
    for y in ast.walk(t):
        if isinstance(y, ast.Name) and y.id in bound:
            y.id = bound[y.id]
        if isinstance(y, ast.arg) and y.arg in bound:
            y.arg = bound[y.arg]
    ast.fix_missing_locations(t)
    return ast.unparse(t)


def deref(f, e, depth=3):
    """the value expression behind e: a local with exactly one plain definition stands for that definition
    (so `t = g(x); h(t)` and `h(g(x))` look the same to a rule)."""
    while depth > 0 and isinstance(e, ast.Name):
        ds = local_defs(f, e.id)
        if len(ds) == 1 and isinstance(ds[0], ast.AST):
            e = ds[0]
            depth -= 1
        else:
            break
    return e


def inline_block(stmts):
    """copy of a statement list with temporaries folded in: `t = e` directly followed by a statement that reads t once
    (t not read anywhere else in the block) becomes that statement with e in place of t.  Used to compare the arms of a
    switch independently of whether intermediate values were given names."""
    import copy
    body = [clone(s) for s in stmts]
    changed = True
    while changed:
        changed = False
        for i in range(len(body) - 1):
            a, b = body[i], body[i + 1]
            if isinstance(a, ast.Assign) and len(a.targets) == 1 and isinstance(a.targets[0], ast.Name):
                t = a.targets[0].id
                loads = [y for s in body for y in ast.walk(s) if isinstance(y, ast.Name) and y.id == t and isinstance(y.ctx, ast.Load)]
                stores = [y for s in body for y in ast.walk(s) if isinstance(y, ast.Name) and y.id == t and isinstance(y.ctx, ast.Store)]
                here = [y for y in ast.walk(b) if isinstance(y, ast.Name) and y.id == t and isinstance(y.ctx, ast.Load)]
                if len(loads) == 1 and len(here) == 1 and len(stores) == 1 and not isinstance(b, (ast.If, ast.For, ast.While, ast.With, ast.Try)):
                    class R(ast.NodeTransformer):
                        def visit_Name(self, n):
                            return a.value if (n.id == t and isinstance(n.ctx, ast.Load)) else n
                    body[i + 1] = ast.fix_missing_locations(R().visit(b))
                    del body[i]
                    changed = True
                    break
    return body


def var_from_call(f, callee_name, index=None):
    """name of the local that receives the result of a call to <callee_name> (index: position in a tuple-unpack)"""
    for n in walk_shallow(f.node):
        if isinstance(n, ast.Assign) and isinstance(n.value, ast.Call) and fn_name(n.value) == callee_name:
            t = n.targets[0]
            if isinstance(t, ast.Name) and index is None:
                return t.id
            if isinstance(t, (ast.Tuple, ast.List)) and index is not None and index < len(t.elts) and isinstance(t.elts[index], ast.Name):
                return t.elts[index].id
    return None
