"""Driver: ``check <property id> [--tier quick|thorough] [--replay file] [--root dir]``.

exit 0  every rule instance holds (or is a listed known finding)
exit 1  ``VIOLATION property=<id> replay=<path>``
exit 2  ``ANALYSIS-ERROR`` - anchor vanished / instance floor not met / unknown idiom
"""
import argparse
import warnings

warnings.filterwarnings("ignore", category=SyntaxWarning)   # invalid escapes in the analysed sources' docstrings
import importlib
import json
import os
import sys
import time
import traceback

HERE = os.path.dirname(os.path.dirname(os.path.abspath(__file__)))

from .engine import Ctx, Report
from .core.model import AnchorError

BOUNDS = [
    "static analysis of /repo's current sources only; nothing from syne_tune is imported or executed",
    "callee resolution by annotations, constructor assignments and class-hierarchy analysis (no type checker in the sandbox)",
    "helper calls are looked through up to depth 3; dynamic dispatch by CHA",
    "exceptions raised by callees are modelled only inside try bodies, for assert/raise, and for finally obligations",
    "available-facts: an attribute fact is killed by stores/mutating container calls on that path, not by arbitrary calls",
    "only the structural (S) clauses named in coverage.explanation are decided; numeric/history (N) clauses are not",
]


def load_known():
    p = os.path.join(HERE, "known_findings.json")
    if not os.path.exists(p):
        return []
    with open(p) as fh:
        return json.load(fh).get("findings", [])


def write_evidence(prop, tier, seed, t0, explanation, rep, ctx, extra=None, violations=0, error=None):
    os.makedirs(os.path.join(HERE, "evidence"), exist_ok=True)
    items = rep.items if rep is not None else []
    judged = [i for i in items if i.status in ("ok", "violation")]
    cov = {
        "explanation": explanation,
        "obligations": len(judged),
        "discharged": sum(1 for i in judged if i.status == "ok"),
        "rule": "one obligation per (rule, construct) instance located in the resolved program; "
                "instance counts are checked against the floor confirmed by reading",
        "samples": [i.as_dict() for i in items][:400],
        "informational": sum(1 for i in items if i.status == "info"),
        "exhaustive": False,
    }
    if ctx is not None:
        cov["analysed"] = dict(ctx.P.stats(), **ctx.R.call_stats())
        from .core.normalise import PASSES
        cov["loader"] = {
            "canonical_form_passes": [getattr(p_, "__name__", str(p_)).lstrip("_") for p_ in PASSES],
            "reidentified": getattr(ctx.P, "reidentified", None) or {"renamed_back": {}, "helpers_expanded": 0},
            "note": "rules are evaluated on the canonical form of every module (DESIGN.md §12); positions are those of the source",
        }
    if rep is not None and getattr(rep, "refused", None):
        cov["clauses_not_analysed"] = [{"clause_function": w, "reason": r} for w, r in rep.refused]
    if rep is not None and rep.notes:
        cov["notes"] = rep.notes
    if extra:
        cov.update(extra)
    if error:
        cov["analysis_error"] = error
    ev = {
        "property_id": prop, "tier": tier, "seed": seed, "level": "other",
        "coverage": cov, "assumptions": BOUNDS, "wall_s": round(time.time() - t0, 3),
        "violations": violations,
    }
    with open(os.path.join(HERE, "evidence", prop + ".json"), "w") as fh:
        json.dump(ev, fh, indent=1, sort_keys=True)
        fh.write("\n")


def run_check(prop, tier="quick", root="/repo", overlay=None, quiet=False):
    """Run the rule module of ``prop``.  Returns (ctx, report, module)."""
    ctx = Ctx(root=root, overlay=overlay)
    mod = importlib.import_module("stverif.rules." + prop.lower())
    rep = Report(prop)
    rep.refused = []
    _run_clauses(mod, ctx, rep, tier)
    from .rules.common import cross_cutting
    try:
        cross_cutting(ctx, rep, prop)
    except AnchorError as e:
        rep.refused.append(("cross_cutting", str(e)))
    for clause, floor in getattr(mod, "FLOOR", {}).items():
        n = rep.count(clause)
        # a violation found in the clause explains a reduced count (a rule that reports the broken construct returns early):
        # the violation is the verdict, the floor guards only against rules that silently match nothing
        if n < floor and not any(i.clause == clause and i.status == "violation" for i in rep.items) \
                and not any(r[0] != "floor" for r in rep.refused):
            rep.refused.append(("floor", f"{prop}-{clause}: {n} rule instances found, confirmed floor is {floor} "
                                         f"(an anchor moved or the rule no longer recognises the construct)"))
    if rep.refused:
        # a clause that could not find what it reasons about decides nothing.  If another clause found a violation that is not a
        # known finding, that violation is the verdict (and the refusals are printed with it); otherwise the run is an ANALYSIS-ERROR
        new, _ = classify(prop, rep, load_known())
        if not new:
            raise AnchorError(rep.refused[0][1] + (f" (+{len(rep.refused) - 1} more)" if len(rep.refused) > 1 else ""))
    return ctx, rep, mod


def _run_clauses(mod, ctx, rep, tier):
    """mod.run(ctx, rep, tier) with every clause function of the module (signature starting `ctx, rep`) run to completion
    independently: an AnchorError inside one clause is recorded and the remaining clauses are still evaluated"""
    import inspect
    import types
    depth = [0]
    saved = {}

    def wrap(fn):
        def w(*a, **k):
            depth[0] += 1
            try:
                return fn(*a, **k)
            except AnchorError as e:
                if depth[0] > 1:
                    raise           # inside another clause function: that one is the unit
                rep.refused.append((fn.__name__, str(e)))
                return None
            finally:
                depth[0] -= 1
        return w
    for name, fn in list(vars(mod).items()):
        if isinstance(fn, types.FunctionType) and name != "run":
            try:
                params = list(inspect.signature(fn).parameters)
            except (TypeError, ValueError):
                continue
            if params[:2] == ["ctx", "rep"]:
                saved[name] = fn
                setattr(mod, name, wrap(fn))
    try:
        mod.run(ctx, rep, tier)
    except AnchorError as e:
        rep.refused.append(("run", str(e)))
    finally:
        for name, fn in saved.items():
            setattr(mod, name, fn)


def classify(prop, rep, known):
    """Split violated items into (new, known)."""
    kn = {(k["rule"], k["construct"]): k for k in known
          if k.get("property") == prop and k.get("status") == "known"}
    new, old = [], []
    for i in rep.items:
        if i.status != "violation":
            continue
        if i.key() in kn:
            old.append((i, kn[i.key()]))
        else:
            new.append(i)
    return new, old


def main(argv=None):
    ap = argparse.ArgumentParser()
    ap.add_argument("prop")
    ap.add_argument("--tier", default=os.environ.get("VERIF_TIER", "quick"), choices=["quick", "thorough"])
    ap.add_argument("--replay", default=None)
    ap.add_argument("--root", default=os.environ.get("STVERIF_ROOT", "/repo"))
    ap.add_argument("--no-evidence", action="store_true")
    ap.add_argument("-v", "--verbose", action="store_true")
    a = ap.parse_args(argv)
    if a.prop == "selftest":
        from .selftest import selftest
        return selftest()
    prop = a.prop.upper()
    seed = int(os.environ.get("VERIF_SEED", "0") or 0)
    t0 = time.time()
    ctx = rep = mod = None
    try:
        ctx, rep, mod = run_check(prop, a.tier, a.root)
        extra = {}
        if a.tier == "thorough":
            if hasattr(mod, "thorough"):
                extra = mod.thorough(ctx, rep, seed) or {}
            from .audit.runner import audit
            extra.update(audit(prop, a.root, seed=seed))
            from .audit.mutants import mutation_audit
            extra.update(mutation_audit(prop, a.root, seed=seed, per_function=5, total_cap=96))
    except AnchorError as e:
        print(f"ANALYSIS-ERROR property={prop} {e}")
        if not a.no_evidence:
            write_evidence(prop, a.tier, seed, t0, "analysis error - nothing is claimed by this run", rep, ctx,
                           error=str(e))
        return 2
    except Exception as e:  # a traceback must not look like a violation
        traceback.print_exc()
        print(f"ANALYSIS-ERROR property={prop} internal error: {type(e).__name__}: {e}")
        if not a.no_evidence:
            try:
                write_evidence(prop, a.tier, seed, t0, "analysis error - nothing is claimed by this run", rep, ctx,
                               error=f"{type(e).__name__}: {e}")
            except Exception:
                pass
        return 2

    known = load_known()
    new, old = classify(prop, rep, known)
    n_ok = sum(1 for i in rep.items if i.status == "ok")
    st = ctx.P.stats()
    print(f"[{prop}] analysed {st['files']} files, {st['classes']} classes, {st['functions']} functions; "
          f"{n_ok + len(new) + len(old)} rule instances, {n_ok} hold, "
          f"{sum(1 for i in rep.items if i.status == 'info')} informational")
    if a.verbose:
        for i in rep.items:
            print(f"  {i.status:9s} {i.clause:4s} {i.rule:18s} {i.construct}  {i.loc}  {i.detail}")
    for who, why in getattr(rep, "refused", []):
        print(f"  not analysed ({who}): {why}")
    for i, k in old:
        print(f"KNOWN-FINDING: property={prop} {i.clause} {i.rule} {i.construct} @ {i.loc}: {k.get('what', i.detail)}")
    au = extra.get("audit", {}) if a.tier == "thorough" else {}
    audit_bad = au.get("checker_defects", 0)
    if au.get("variants"):
        print(f"[{prop}] sensitivity audit: {au['breaking']['flagged']}/{au['breaking']['run']} breaking variants flagged, "
              f"{au['equivalent']['silent']}/{au['equivalent']['run']} equivalence variants silent, "
              f"{len(au.get('not_applicable', []))} not applicable")
        for m in au["breaking"]["missed"]:
            print(f"    checker defect: breaking variant not flagged: {m}")
        for m in au["equivalent"]["false_alarms"]:
            print(f"    checker defect: equivalence variant flagged: {m['name']} {m['new'] or m['error']}")
    mu = extra.get("mutation_audit") if a.tier == "thorough" else None
    if mu:
        print(f"[{prop}] generic mutants of the {mu['functions']} functions the rules report on: {mu['noticed']}/{mu['mutants']} noticed; "
              f"no mutant noticed in {len(mu['functions_where_no_mutant_is_noticed'])} function(s) (listed in the evidence; this measures the "
              "checker, not the property)")
    rc = 0
    if a.replay:
        with open(a.replay) as fh:
            want = {(v["rule"], v["construct"]) for v in json.load(fh).get("violations", [])}
        still = [i for i in rep.items if i.status == "violation" and i.key() in want]
        for i in still:
            print(f"  replayed: {i.clause} {i.rule} {i.construct} @ {i.loc}: {i.detail}")
            for w in i.witness:
                print(f"      {w}")
        if still:
            print(f"VIOLATION property={prop} replay={a.replay}")
            return 1
        print(f"[{prop}] replay: none of the {len(want)} recorded violations is present any more")
        return 0
    if new:
        os.makedirs(os.path.join(HERE, "evidence", "replay"), exist_ok=True)
        rp = os.path.join(HERE, "evidence", "replay", f"{prop}.json")
        with open(rp, "w") as fh:
            json.dump({"property": prop, "root": a.root,
                       "violations": [i.as_dict() for i in new]}, fh, indent=1)
        for i in new:
            print(f"  violated: {i.clause} {i.rule} {i.construct} @ {i.loc}: {i.detail}")
            for w in i.witness[:12]:
                print(f"      {w}")
        print(f"VIOLATION property={prop} replay={rp}")
        rc = 1
    if not a.no_evidence:
        extra = dict(extra)
        extra["known_findings_printed"] = [f"{i.clause} {i.rule} {i.construct}" for i, k in old]
        extra["confirmed_floor"] = getattr(mod, "FLOOR", {})
        write_evidence(prop, a.tier, seed, t0, getattr(mod, "EXPLANATION", ""), rep, ctx, extra,
                       violations=len(new))
    if audit_bad:
        print(f"[{prop}] note: sensitivity audit found {audit_bad} checker defect(s) (see evidence); "
              f"this does not change the property verdict")
    return rc


if __name__ == "__main__":
    sys.exit(main())
