#!/usr/bin/env python3
"""kf.py add <property> <clause> <rule> <status known|fixed> <commit|-> <construct> <what>"""
import json, sys
p = '/verif/known_findings.json'
d = json.load(open(p))
_, _, prop, clause, rule, status, commit, construct, what = sys.argv
e = {"property": prop, "clause": clause, "rule": rule, "construct": construct, "status": status}
if status == "fixed":
    e["commit"] = commit
    e["line"] = f"fixed: property={prop} {commit} {what}"
else:
    e["what"] = what
d["findings"] = [x for x in d["findings"] if not (x["property"] == prop and x["rule"] == rule and x["construct"] == construct)]
d["findings"].append(e)
json.dump(d, open(p, "w"), indent=1)
print("recorded", prop, construct)
