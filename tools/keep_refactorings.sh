#!/bin/sh
# keep_refactorings.sh <prop> <round>   - copy /tmp/refac_<round>_<prop>/refactor_i.diff into /verif/refactorings/<prop>-<round>-<i>/patch.diff
P=$1; R=$2
for i in 1 2 3 4; do # (a batch may have fewer)
  f=/tmp/refac_${R}_$P/refactor_$i.diff
  [ -s "$f" ] || continue
  mkdir -p /verif/refactorings/$P-$R-$i
  cp $f /verif/refactorings/$P-$R-$i/patch.diff
  [ -f /tmp/refac_${R}_$P/check_$i.py ] && cp /tmp/refac_${R}_$P/check_$i.py /verif/refactorings/$P-$R-$i/check.py
done
[ -f /tmp/refac_${R}_$P/notes.md ] && cp /tmp/refac_${R}_$P/notes.md /verif/refactorings/$P-$R-notes.md
ls -d /verif/refactorings/$P-$R-*
