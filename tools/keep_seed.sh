#!/bin/sh
# keep_seed.sh <seed dir> <name> <property> "<needs>" "<caught by>"
SD="$1"; NAME="$2"; PROP="$3"; NEEDS="$4"; CAUGHT="$5"
D=/verif/seeded/$NAME; mkdir -p $D
cp $SD/patch.diff $D/patch.diff; cp $SD/demo.py $D/demo.py; [ -f $SD/notes.md ] && cp $SD/notes.md $D/notes.md
python3 - "$D" "$PROP" "$NEEDS" "$CAUGHT" <<'PY'
import json, sys
d, prop, needs, caught = sys.argv[1:5]
json.dump({"property": prop, "needs_to_manifest": needs,
           "confirmed": "tools/try_seed.sh: demo exits 0 on the unchanged tree, non-zero with patch.diff applied (scratch worktree of /repo HEAD); existing suite unchanged per the author's run (notes.md)",
           "detected_by": caught}, open(d + "/meta.json", "w"), indent=1)
PY
echo kept $D
