#!/usr/bin/env python3
"""Regenerates /verif/MANIFEST.json from the rule modules that exist.

A property is claimed iff stverif/rules/<id>.py exists and is listed in CLAIMED
below; everything else goes to not_applicable with its reason.
"""
import importlib
import json
import os
import sys

HERE = os.path.dirname(os.path.dirname(os.path.abspath(__file__)))
sys.path.insert(0, HERE)

TECH = {
    "C01": "who-may-call over the resolved call graph, CFG must-precede/must-follow, available-facts guards, in/out-parameter rebind check, symbolic worker-budget check",
    "C02": "symbolic cursor algebra over CFG paths, available-facts guards, who-may-call, keep-filter polarity evaluation",
    "C03": "CFG must-precede, available-facts guards, def-use of skip_rungs/quantiles, dual-pair (parity) check of the comparison",
    "C04": "CFG must-precede/must-follow on promotion paths, override conjunction check, monotone-write check",
    "C05": "return-shape/nullness check, available-facts guards, sibling agreement of the two synchronous schedulers, external-API stub lookup",
    "C06": "who-may-call, must-precede of initial-config source before RNG/model calls, cursor rule on the grid index, taint with sanitizer",
    "C07": "exhaustive-dispatch vs. class table with constructor-precondition implication, taint-with-sanitizer (clip), writer/reader agreement of the JSON form",
    "C08": "taint-with-sanitizer (variance floor), non-interference (no data dependence of variance on targets)",
    "C10": "who-may-write + monotone-write shapes, pairing rule on the event heap, write-once guard, who-may-call",
    "C11": "call-graph never-reach to process-global generators, def-use of random_state arguments, element-type lattice for hash-order iteration",
    "C12": "finally-suite obligations, CFG must-pass-through of the criterion re-evaluation, dataclass-field/reader agreement, constructor coverage",
    "C13": "call-graph must-reach per override, available-facts guards on the failure edges, keep-filter polarity, external-API stub lookup",
    "C14": "keep-filter polarity by three-valued evaluation, CFG must-precede/must-follow, available-facts guards, def-use agreement",
    "C15": "parity typing (EVEN/ODD/SIGN/NORM/FLIP) of every mode-dependent site, dual-pair normalisation",
    "C16": "state-key writer/reader agreement along the super() chain, constructor coverage with nullness, co-initialisation rule, get_params/set_params key agreement",
    "C17": "CFG must-follow, no-mutation-of-parameter taint, name/operator agreement in the statistics, dual-pair check",
    "C18": "regex-AST vs f-string literal agreement, CFG must-precede, definite assignment, fall-through analysis of the json default hook",
    "C19": "ORDER/SCORE kind typing of index vectors, mask-shape agreement, CFG must-precede",
    "C20": "who-may-call, call-graph never-reach from pause paths, CFG must-precede, cross-handler stale-handoff analysis",
}

NA_REASON = {
    "C09": "every clause is an equality/inequality between real-valued functions of runtime arrays (gradients, EI closed "
           "form); nothing about it is visible in control flow, call structure or a finite table, so static analysis "
           "cannot decide any necessary condition of it (DESIGN.md §6)",
}
NOT_BUILT = "static check designed (DESIGN.md §4) but its rule module is not built yet in this round; not claimed until it is"

ALL = ["C%02d" % i for i in range(1, 21)]


def main():
    checks, na = [], []
    for pid in ALL:
        path = os.path.join(HERE, "stverif", "rules", pid.lower() + ".py")
        if pid in NA_REASON:
            na.append({"property_id": pid, "reason": NA_REASON[pid]})
            continue
        if not os.path.exists(path):
            na.append({"property_id": pid, "reason": NOT_BUILT})
            continue
        mod = importlib.import_module("stverif.rules." + pid.lower())
        if getattr(mod, "NOT_CLAIMED", None):
            na.append({"property_id": pid, "reason": mod.NOT_CLAIMED})
            continue
        checks.append({
            "property_id": pid,
            "quick_cmd": f"./check {pid} --tier quick",
            "thorough_cmd": f"./check {pid} --tier thorough",
            "evidence_file": f"/verif/evidence/{pid}.json",
            "replay_cmd_template": f"./check {pid} --replay {{path}}",
            "engine": "stverif",
            "level_claimed": {
                "category": "other",
                "text": "Static analysis (syntax trees, class hierarchy, resolved call graph, per-function CFGs, "
                        "available-facts dataflow) of /repo's current sources, on every path and for every class of "
                        "the families involved. " + mod.EXPLANATION,
                "design_ref": f"DESIGN.md §4 {pid}",
            },
            "level_note": "Trusted base: the engine's own callee resolution (annotations, constructor assignments, CHA; "
                          "no type checker available), helper inlining depth 3, exceptions of callees not modelled "
                          "outside try bodies. Decides the named structural clauses only - each a necessary condition "
                          "of the property - and explicitly not the numeric/history clauses.",
            "technique": "static analysis: " + TECH.get(pid, "AST/CFG/call-graph rules"),
        })
    man = {
        "version": 1,
        "setup_cmd": "./check selftest",
        "hooks": {
            "guard": "SYNE_TUNE_VERIF",
            "enable": "none needed: the checks read sources only; no hook or instrumentation is committed to /repo",
            "baseline_off_cmd": "cd /repo && /venv/bin/python -m pytest -ra -q -p no:cacheprovider --timeout=900 "
                                "--continue-on-collection-errors",
            "source_commits": [],
            "add_only": True,
        },
        "engines": [{
            "name": "stverif",
            "path": "/verif/stverif",
            "serves_properties": [c["property_id"] for c in checks],
            "kind_free_text": "repository-specific static analyser (stdlib ast): loader + C3 class hierarchy + "
                              "annotation/CHA call resolution + hand-built CFG + available-facts dataflow + rule kinds "
                              "(must_precede, must_follow, guarded_by, who_may_call/write, agreement, ctor_coverage, "
                              "cursor, parity and kind typing, keep-filter polarity, stale handoff)",
        }],
        "checks": checks,
        "not_applicable": na,
        "notes": "Technique family: static analysis only. Exit 0 = all rule instances hold (KNOWN-FINDING lines for "
                 "listed genuine defects), exit 1 = VIOLATION, exit 2 = ANALYSIS-ERROR (anchor vanished / unknown "
                 "idiom; nothing claimed). Known findings: /verif/known_findings.json.",
    }
    with open(os.path.join(HERE, "MANIFEST.json"), "w") as fh:
        json.dump(man, fh, indent=1)
        fh.write("\n")
    print("claimed:", [c["property_id"] for c in checks])
    print("not applicable:", [n["property_id"] for n in na])


if __name__ == "__main__":
    main()
