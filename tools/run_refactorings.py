import sys, json, os, warnings
warnings.filterwarnings("ignore")
sys.path.insert(0,'/verif')
from concurrent.futures import ProcessPoolExecutor
from stverif.audit.runner import refactoring_variants, _run_one, _baseline_keys
pat=sys.argv[1] if len(sys.argv)>1 else ""
PROPS=sys.argv[2:] or ["C%02d"%i for i in range(1,21) if i!=9]
def job(args):
    prop, v = args
    r=_run_one((prop,"/repo",v,BASE[prop]))
    return prop, v["name"], r
BASE={p:_baseline_keys(p,"/repo") for p in PROPS} if True else {}
if __name__=="__main__":
    vs=[v for v in refactoring_variants("C01","/repo") if pat in v["name"]]
    work=[(p,v) for v in vs for p in PROPS]
    with ProcessPoolExecutor(max_workers=16) as ex:
        res=list(ex.map(job, work, chunksize=2))
    bad={}
    for prop,name,r in res:
        if r["flagged"] or r["error"]:
            bad.setdefault(name,[]).append((prop, r["new"][:3], r["error"]))
    for v in vs:
        n=v["name"]
        print(("FAIL " if n in bad else "ok   ")+n)
        for prop,new,err in bad.get(n,[]):
            print("      ",prop, (err or "")[:150], [x[:110] for x in new])
    print(f"{len(vs)-len(bad)}/{len(vs)} refactorings silent")
