#!/bin/sh
# try_seed.sh <seed dir> <property ids...>  - apply a seeded patch in a scratch worktree, run its demo both ways and the checks
SD="$1"; shift
WT=/tmp/vs_$$
git -C /repo worktree add -q --detach $WT HEAD || exit 2
cd $WT
echo "== demo on unchanged tree"; PYTHONPATH=$WT /venv/bin/python $SD/demo.py >/tmp/vs_demo0.log 2>&1; echo "exit=$?"; tail -2 /tmp/vs_demo0.log
if git apply $SD/patch.diff; then
  echo "== demo with patch"; PYTHONPATH=$WT /venv/bin/python $SD/demo.py >/tmp/vs_demo1.log 2>&1; echo "exit=$?"; tail -3 /tmp/vs_demo1.log
  for p in "$@"; do echo "== check $p"; /verif/check $p --root $WT --no-evidence | grep -v "^\[C" | cut -c1-300; echo "rc=$?"; done
else echo "PATCH DOES NOT APPLY"; fi
cd /; git -C /repo worktree remove --force $WT
