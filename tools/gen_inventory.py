#!/usr/bin/env python3
"""Write stverif/data/inventory.json: the private members (methods, attributes, module-level functions) of the tree the rules
were written for, with the signatures core/reidentify.py matches renamed members by.  Run on the pinned tree only."""
import ast, json, os, sys, warnings
sys.path.insert(0, os.path.dirname(os.path.dirname(os.path.abspath(__file__))))
from stverif.core.reidentify import build_inventory, DATA
root = sys.argv[1] if len(sys.argv) > 1 else "/repo"
trees = {}
for d, dirs, fs in os.walk(os.path.join(root, "syne_tune")):
    dirs[:] = sorted(x for x in dirs if x != "__pycache__")
    for f in sorted(fs):
        if f.endswith(".py"):
            p = os.path.join(d, f)
            with warnings.catch_warnings():
                warnings.simplefilter("ignore")
                trees[os.path.relpath(p, root)] = ast.parse(open(p, encoding="utf-8").read())
inv = build_inventory(trees)
inv["generated_from"] = os.popen(f"git -C {root} rev-parse HEAD").read().strip()
os.makedirs(os.path.dirname(DATA), exist_ok=True)
json.dump(inv, open(DATA, "w"), indent=0, sort_keys=True)
print("classes", len(inv["classes"]), "names", len(inv["names"]), "->", DATA)
