#!/venv/bin/python
"""show the canonical form the analyser sees for one function, optionally under a stored refactoring
usage: tools/show_canonical.py <function or Class.method name> [refactoring name]"""
import ast, sys, warnings
warnings.filterwarnings("ignore")
sys.path.insert(0, "/verif")
from stverif.audit.runner import refactoring_variants
from stverif.core.model import Program

name = sys.argv[1]
overlay = None
if len(sys.argv) > 2:
    vs = [v for v in refactoring_variants("C01", "/repo") if sys.argv[2] in v["name"]]
    overlay = vs[0]["overlay"]
P = Program("/repo", overlay=overlay) if overlay else Program("/repo")
print("reidentified:", getattr(P, "reidentified", None))
for f in P.functions.values() if hasattr(P, "functions") else []:
    q = f.qualname if hasattr(f, "qualname") else str(f)
    if q.endswith(name):
        print("#", q)
        print(ast.unparse(f.node))
