#!/usr/bin/env python3
"""Compare a junit xml from the baseline command with /root/.vp/BASELINE.json stable_pass."""
import json, sys
import xml.etree.ElementTree as ET
base = set(json.load(open('/root/.vp/BASELINE.json'))['stable_pass'])
root = ET.parse(sys.argv[1]).getroot()
passed = set()
for tc in root.iter('testcase'):
    if not any(ch.tag in ('failure', 'error', 'skipped') for ch in tc):
        passed.add(f"{tc.get('classname')}::{tc.get('name')}")
missing = sorted(base - passed)
print(f"stable_pass={len(base)} passed_now={len(passed)} missing_from_stable={len(missing)}")
for m in missing: print("  MISSING", m)
sys.exit(1 if missing else 0)
