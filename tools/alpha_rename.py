#!/usr/bin/env python3
"""Rewrite <root>/syne_tune/**/*.py in place with every function local renamed (use on a scratch worktree!).
usage: alpha_rename.py <root> [suffix | @]   (@: scramble - new names share nothing with the old ones)
"""
import os
import sys

sys.path.insert(0, os.path.dirname(os.path.dirname(os.path.abspath(__file__))))
from stverif.audit.transforms import package_overlay  # noqa: E402

if __name__ == "__main__":
    root = sys.argv[1]
    suffix = sys.argv[2] if len(sys.argv) > 2 else "_r"
    ov = package_overlay(root, suffix)
    for rel, text in ov.items():
        with open(os.path.join(root, rel), "w") as fh:
            fh.write(text)
    print("rewrote", len(ov), "files")
