#!/bin/sh
# try_refactor.sh <refactor dir> [property ids...]  - apply each refactor_i.diff (behaviour-preserving change written by a sub-agent) on a scratch
# worktree and run the checks: anything but silence is a false alarm (or a refactoring that is not one)
RD="$1"; shift
PROPS="${@:-C01 C02 C03 C04 C05 C06 C07 C08 C10 C11 C12 C13 C14 C15 C16 C17 C18 C19 C20}"
for d in $RD/refactor_*.diff; do
  WT=/tmp/vr_$$
  git -C /repo worktree add -q --detach $WT HEAD || exit 2
  if git -C $WT apply $d 2>/dev/null; then
    echo "== $(basename $d) ($(grep -c '^[+-][^+-]' $d) changed lines; $(grep '^+++ ' $d | sed 's,+++ b/,,' | tr '\n' ' '))"
    for p in $PROPS; do /verif/check $p --root $WT --no-evidence 2>&1 | grep "violated\|ANALYSIS-ERROR" | grep -v "cross_cutting cross-cutting" | cut -c1-330 | sed "s/^/   $p: /"; done
  else echo "== $(basename $d): DOES NOT APPLY"; fi
  git -C /repo worktree remove --force $WT
done
